// Independent references used by the property checks (never sees kalign headers or code).
//   c07_certify : full-matrix three-state affine DP (double precision) with a margin certificate
//   sellers_dist: semi-global edit distance (min over substrings of the text)
// Build: g++ -O2 -shared -fPIC -o liboracle.so oracle.cpp
#include <algorithm>
#include <cmath>
#include <cstdint>
#include <cstring>
#include <limits>
#include <vector>

namespace {
const double NEG = -1e300;

struct Model {
        const uint8_t *a;
        const uint8_t *b;
        int la, lb;
        const double *subm; // 23 x 23
        double gpo, gpe, tgpe;
        double sub(int i, int j) const { return subm[a[i - 1] * 23 + b[j - 1]]; } // 1-based residues
};

// States per cell (i, j) = residues consumed of a and b.
//   M: last column aligned a_i with b_j
//   A: last column is a gap in a (consumes b_j).  i == 0: leading terminal, i == la: trailing terminal, else interior
//   B: last column is a gap in b (consumes a_i).  j == 0: leading terminal, j == lb: trailing terminal, else interior
// No direct A <-> B transition (kalign has none).  Interior gap of length L: gpo + (L-1) gpe + gpo (open and close).
// Terminal gap of length L: L tgpe, plus `tc` for the junction with the neighbouring match (tc = gpo "charged", 0 "free").
struct Forbid {
        int first_i = -1, first_j = -1; // entering M[first_i][first_j] as the first match is forbidden
        int last_i = -1, last_j = -1;   // leaving M[last_i][last_j] as the last match is forbidden
};

// value-only forward DP over the whole rectangle; returns the best end score
double forward_value(const Model &m, double tc, const Forbid &fb)
{
        const int la = m.la, lb = m.lb;
        std::vector<double> Mp(lb + 1, NEG), Ap(lb + 1, NEG), Bp(lb + 1, NEG);
        std::vector<double> Mc(lb + 1, NEG), Ac(lb + 1, NEG), Bc(lb + 1, NEG);
        // row 0
        for (int j = 1; j <= lb; j++) {
                Ap[j] = -j * m.tgpe;
        }
        double start0 = 0.0; // virtual start at (0,0)
        for (int i = 1; i <= la; i++) {
                std::fill(Mc.begin(), Mc.end(), NEG);
                std::fill(Ac.begin(), Ac.end(), NEG);
                std::fill(Bc.begin(), Bc.end(), NEG);
                Bc[0] = -i * m.tgpe; // leading gap in b
                for (int j = 1; j <= lb; j++) {
                        // M
                        double best = NEG;
                        bool first_ok = !(i == fb.first_i && j == fb.first_j);
                        if (i == 1 && j == 1) {
                                if (first_ok) {
                                        best = start0;
                                }
                        } else if (i == 1) { // from leading gap in a
                                if (first_ok) {
                                        best = Ap[j - 1] - tc;
                                }
                        } else if (j == 1) { // from leading gap in b
                                if (first_ok) {
                                        best = Bp[0] - tc;
                                }
                        }
                        if (i > 1 && j > 1) {
                                best = std::max(best, Mp[j - 1]);
                                best = std::max(best, Ap[j - 1] - m.gpo);
                                best = std::max(best, Bp[j - 1] - m.gpo);
                        }
                        Mc[j] = best > NEG / 2 ? best + m.sub(i, j) : NEG;
                        // A (gap in a), row i, consumes b_j
                        if (i < la) {
                                double v = NEG;
                                if (Ac[j - 1] > NEG / 2) {
                                        v = std::max(v, Ac[j - 1] - m.gpe);
                                }
                                if (Mc[j - 1] > NEG / 2) {
                                        v = std::max(v, Mc[j - 1] - m.gpo);
                                }
                                Ac[j] = v;
                        } else { // trailing terminal
                                double v = NEG;
                                if (Ac[j - 1] > NEG / 2) {
                                        v = std::max(v, Ac[j - 1] - m.tgpe);
                                }
                                if (Mc[j - 1] > NEG / 2 && !(i == fb.last_i && j - 1 == fb.last_j)) {
                                        v = std::max(v, Mc[j - 1] - tc - m.tgpe);
                                }
                                Ac[j] = v;
                        }
                        // B (gap in b), column j, consumes a_i
                        if (j < lb) {
                                double v = NEG;
                                if (Bp[j] > NEG / 2) {
                                        v = std::max(v, Bp[j] - m.gpe);
                                }
                                if (Mp[j] > NEG / 2) {
                                        v = std::max(v, Mp[j] - m.gpo);
                                }
                                Bc[j] = v;
                        } else {
                                double v = NEG;
                                if (Bp[j] > NEG / 2) {
                                        v = std::max(v, Bp[j] - m.tgpe);
                                }
                                if (Mp[j] > NEG / 2 && !(i - 1 == fb.last_i && j == fb.last_j)) {
                                        v = std::max(v, Mp[j] - tc - m.tgpe);
                                }
                                Bc[j] = v;
                        }
                }
                Mp.swap(Mc);
                Ap.swap(Ac);
                Bp.swap(Bc);
        }
        double end = NEG;
        if (!(la == fb.last_i && lb == fb.last_j)) {
                end = std::max(end, Mp[lb]);
        }
        end = std::max(end, Ap[lb]);
        end = std::max(end, Bp[lb]);
        return end;
}

// full DP with traceback under convention tc; fills path as column codes: 0 = match, 1 = gap in a, 2 = gap in b
double forward_trace(const Model &m, double tc, std::vector<uint8_t> &cols)
{
        const int la = m.la, lb = m.lb;
        const size_t W = lb + 1;
        std::vector<double> M((la + 1) * W, NEG), A((la + 1) * W, NEG), B((la + 1) * W, NEG);
        std::vector<uint8_t> tM((la + 1) * W, 9), tA((la + 1) * W, 9), tB((la + 1) * W, 9);
        // trace codes: 0 from M, 1 from A, 2 from B, 3 from start
        for (int j = 1; j <= lb; j++) {
                A[j] = -j * m.tgpe;
                tA[j] = j == 1 ? 3 : 1;
        }
        for (int i = 1; i <= la; i++) {
                B[i * W] = -i * m.tgpe;
                tB[i * W] = i == 1 ? 3 : 2;
                for (int j = 1; j <= lb; j++) {
                        size_t c = i * W + j, d = (i - 1) * W + (j - 1), u = (i - 1) * W + j, l = i * W + (j - 1);
                        double best = NEG;
                        uint8_t t = 9;
                        if (i == 1 && j == 1) {
                                best = 0.0;
                                t = 3;
                        } else if (i == 1) {
                                best = A[d] - tc;
                                t = 1;
                        } else if (j == 1) {
                                best = B[d] - tc;
                                t = 2;
                        } else {
                                best = M[d];
                                t = 0;
                                if (A[d] - m.gpo > best) {
                                        best = A[d] - m.gpo;
                                        t = 1;
                                }
                                if (B[d] - m.gpo > best) {
                                        best = B[d] - m.gpo;
                                        t = 2;
                                }
                        }
                        M[c] = best > NEG / 2 ? best + m.sub(i, j) : NEG;
                        tM[c] = t;
                        double ext = (i < la) ? m.gpe : m.tgpe;
                        double opn = (i < la) ? m.gpo : tc + m.tgpe;
                        double v = NEG;
                        t = 9;
                        if (A[l] > NEG / 2 && i > 0) {
                                v = A[l] - ext;
                                t = 1;
                        }
                        if (M[l] > NEG / 2 && M[l] - opn > v) {
                                v = M[l] - opn;
                                t = 0;
                        }
                        A[c] = v;
                        tA[c] = t;
                        ext = (j < lb) ? m.gpe : m.tgpe;
                        opn = (j < lb) ? m.gpo : tc + m.tgpe;
                        v = NEG;
                        t = 9;
                        if (B[u] > NEG / 2) {
                                v = B[u] - ext;
                                t = 2;
                        }
                        if (M[u] > NEG / 2 && M[u] - opn > v) {
                                v = M[u] - opn;
                                t = 0;
                        }
                        B[c] = v;
                        tB[c] = t;
                }
        }
        size_t e = la * W + lb;
        int st = 0;
        double best = M[e];
        if (A[e] > best) {
                best = A[e];
                st = 1;
        }
        if (B[e] > best) {
                best = B[e];
                st = 2;
        }
        cols.clear();
        int i = la, j = lb;
        while (i > 0 || j > 0) {
                size_t c = i * W + j;
                uint8_t t;
                if (st == 0) {
                        t = tM[c];
                        cols.push_back(0);
                        i--;
                        j--;
                } else if (st == 1) {
                        t = tA[c];
                        cols.push_back(1);
                        j--;
                } else {
                        t = tB[c];
                        cols.push_back(2);
                        i--;
                }
                if (t == 3) {
                        break;
                }
                st = t;
        }
        std::reverse(cols.begin(), cols.end());
        return best;
}

// Interior rectangle: first match at (i0,j0), last match at (i1,j1); only interior gaps between them.
// Returns S(P1 interior) - best alternative through a node not on P1 (>= 0; 0 = tie), via forward + backward matrices.
double interior_margin(const Model &m, int i0, int j0, int i1, int j1, const std::vector<uint8_t> &cols, size_t c_first, size_t c_last)
{
        const int R = i1 - i0 + 1, C = j1 - j0 + 1;
        if (R == 1 && C == 1) {
                return std::numeric_limits<double>::infinity();
        }
        const size_t W = C;
        auto idx = [&](int r, int c) { return (size_t)r * W + c; };
        std::vector<double> FM(R * W, NEG), FA(R * W, NEG), FB(R * W, NEG), BM(R * W, NEG), BA(R * W, NEG), BB(R * W, NEG);
        // forward: value of best path from M(i0,j0) to the node, including the node's own column score
        FM[idx(0, 0)] = m.sub(i0, j0);
        for (int r = 0; r < R; r++) {
                for (int c = 0; c < C; c++) {
                        if (r == 0 && c == 0) {
                                continue;
                        }
                        int i = i0 + r, j = j0 + c;
                        if (r > 0 && c > 0) {
                                double best = std::max(FM[idx(r - 1, c - 1)], std::max(FA[idx(r - 1, c - 1)], FB[idx(r - 1, c - 1)]) - m.gpo);
                                if (best > NEG / 2) {
                                        FM[idx(r, c)] = best + m.sub(i, j);
                                }
                        }
                        if (c > 0) { // gap in a consumes b_j, row stays
                                double v = NEG;
                                if (FA[idx(r, c - 1)] > NEG / 2) {
                                        v = std::max(v, FA[idx(r, c - 1)] - m.gpe);
                                }
                                if (FM[idx(r, c - 1)] > NEG / 2) {
                                        v = std::max(v, FM[idx(r, c - 1)] - m.gpo);
                                }
                                FA[idx(r, c)] = v;
                        }
                        if (r > 0) {
                                double v = NEG;
                                if (FB[idx(r - 1, c)] > NEG / 2) {
                                        v = std::max(v, FB[idx(r - 1, c)] - m.gpe);
                                }
                                if (FM[idx(r - 1, c)] > NEG / 2) {
                                        v = std::max(v, FM[idx(r - 1, c)] - m.gpo);
                                }
                                FB[idx(r, c)] = v;
                        }
                }
        }
        // backward: best score of the remaining columns after the node (node's own column excluded), ending in M(i1,j1)
        BM[idx(R - 1, C - 1)] = 0.0;
        for (int r = R - 1; r >= 0; r--) {
                for (int c = C - 1; c >= 0; c--) {
                        // successors of state at (r,c)
                        double toM = NEG, toA = NEG, toB = NEG; // value of going next into M(r+1,c+1), A(r,c+1), B(r+1,c)
                        if (r + 1 < R && c + 1 < C && BM[idx(r + 1, c + 1)] > NEG / 2) {
                                toM = m.sub(i0 + r + 1, j0 + c + 1) + BM[idx(r + 1, c + 1)];
                        }
                        if (c + 1 < C && BA[idx(r, c + 1)] > NEG / 2) {
                                toA = BA[idx(r, c + 1)];
                        }
                        if (r + 1 < R && BB[idx(r + 1, c)] > NEG / 2) {
                                toB = BB[idx(r + 1, c)];
                        }
                        if (!(r == R - 1 && c == C - 1)) {
                                double v = NEG;
                                if (toM > NEG / 2) {
                                        v = std::max(v, toM);
                                }
                                if (toA > NEG / 2) {
                                        v = std::max(v, toA - m.gpo);
                                }
                                if (toB > NEG / 2) {
                                        v = std::max(v, toB - m.gpo);
                                }
                                BM[idx(r, c)] = v;
                        }
                        {
                                double v = NEG; // from A: extend A, or close into M
                                if (toM > NEG / 2) {
                                        v = std::max(v, toM - m.gpo);
                                }
                                if (toA > NEG / 2) {
                                        v = std::max(v, toA - m.gpe);
                                }
                                BA[idx(r, c)] = v;
                        }
                        {
                                double v = NEG;
                                if (toM > NEG / 2) {
                                        v = std::max(v, toM - m.gpo);
                                }
                                if (toB > NEG / 2) {
                                        v = std::max(v, toB - m.gpe);
                                }
                                BB[idx(r, c)] = v;
                        }
                }
        }
        double total = FM[idx(R - 1, C - 1)];
        // mark nodes on P1 (interior part of cols: indices c_first..c_last inclusive, both matches)
        std::vector<uint8_t> on(R * W * 3, 0);
        int r = 0, c = 0;
        on[idx(0, 0) * 3 + 0] = 1;
        for (size_t k = c_first + 1; k <= c_last; k++) {
                if (cols[k] == 0) {
                        r++;
                        c++;
                } else if (cols[k] == 1) {
                        c++;
                } else {
                        r++;
                }
                on[idx(r, c) * 3 + cols[k]] = 1;
        }
        double alt = NEG;
        for (int rr = 0; rr < R; rr++) {
                for (int cc = 0; cc < C; cc++) {
                        size_t x = idx(rr, cc);
                        if (!on[x * 3 + 0] && FM[x] > NEG / 2 && BM[x] > NEG / 2) {
                                alt = std::max(alt, FM[x] + BM[x]);
                        }
                        if (!on[x * 3 + 1] && FA[x] > NEG / 2 && BA[x] > NEG / 2) {
                                alt = std::max(alt, FA[x] + BA[x]);
                        }
                        if (!on[x * 3 + 2] && FB[x] > NEG / 2 && BB[x] > NEG / 2) {
                                alt = std::max(alt, FB[x] + BB[x]);
                        }
                }
        }
        if (alt < NEG / 2) {
                return std::numeric_limits<double>::infinity();
        }
        return total - alt;
}
} // namespace

extern "C" {

// out_cols: column codes of the optimum (0 match, 1 gap in a, 2 gap in b), length *out_n (<= la + lb)
// info[0] = optimum under the charged convention, info[1] = margin against alternatives with the same terminal gaps,
// info[2] = margin against alternatives with different terminal gaps (OPT charged, alternatives free),
// info[3] = number of terminal junctions in OPT, info[4] = optimum under the free convention
// returns 0 ok, <0 error
int c07_certify(const uint8_t *a, int la, const uint8_t *b, int lb, const double *subm, double gpo, double gpe, double tgpe,
                uint8_t *out_cols, int *out_n, double *info)
{
        if (la < 1 || lb < 1) {
                return -1;
        }
        Model m{a, b, la, lb, subm, gpo, gpe, tgpe};
        std::vector<uint8_t> cols;
        double opt_charged = forward_trace(m, gpo, cols);
        // first and last match
        size_t cf = 0, cl = cols.size() - 1;
        while (cf < cols.size() && cols[cf] != 0) {
                cf++;
        }
        while (cl > 0 && cols[cl] != 0) {
                cl--;
        }
        if (cf >= cols.size()) {
                return -2; // no match at all: outside kalign's path space
        }
        int i0 = 1, j0 = 1;
        for (size_t k = 0; k < cf; k++) {
                if (cols[k] == 1) {
                        j0++;
                } else {
                        i0++;
                }
        }
        int i1 = la, j1 = lb;
        for (size_t k = cols.size() - 1; k > cl; k--) {
                if (cols[k] == 1) {
                        j1--;
                } else {
                        i1--;
                }
        }
        int junctions = (cf > 0) + (cl + 1 < cols.size());
        double m_same = interior_margin(m, i0, j0, i1, j1, cols, cf, cl);
        Forbid f1;
        f1.first_i = i0;
        f1.first_j = j0;
        Forbid f2;
        f2.last_i = i1;
        f2.last_j = j1;
        double alt_first = forward_value(m, 0.0, f1);
        double alt_last = forward_value(m, 0.0, f2);
        double alt = std::max(alt_first, alt_last);
        double m_diff = alt < NEG / 2 ? std::numeric_limits<double>::infinity() : opt_charged - alt;
        Forbid none;
        info[0] = opt_charged;
        info[1] = m_same;
        info[2] = m_diff;
        info[3] = junctions;
        info[4] = forward_value(m, 0.0, none);
        *out_n = (int)cols.size();
        memcpy(out_cols, cols.data(), cols.size());
        return 0;
}

// value of the best alignment under convention tc (used by the brute-force self test)
double c07_best(const uint8_t *a, int la, const uint8_t *b, int lb, const double *subm, double gpo, double gpe, double tgpe, double tc)
{
        Model m{a, b, la, lb, subm, gpo, gpe, tgpe};
        Forbid none;
        return forward_value(m, tc, none);
}

// min over substrings of t (the empty one included) of the edit distance to p
int sellers_dist(const uint8_t *t, int n, const uint8_t *p, int m)
{
        std::vector<int> prev(m + 1), cur(m + 1);
        for (int i = 0; i <= m; i++) {
                prev[i] = i;
        }
        int best = prev[m];
        for (int j = 0; j < n; j++) {
                cur[0] = 0;
                for (int i = 1; i <= m; i++) {
                        int c = prev[i - 1] + (p[i - 1] != t[j]);
                        c = std::min(c, prev[i] + 1);
                        c = std::min(c, cur[i - 1] + 1);
                        cur[i] = c;
                }
                prev.swap(cur);
                best = std::min(best, prev[m]);
        }
        return best;
}
}
