// C11 harness: bpm_block / bpm / bpm_256 against a plain Sellers DP.
//   c11 exhaustive <sigma> <maxn>        enumerate every text of length <= maxn and every pattern not longer than it
//   c11 random <outfile>                 rapidcheck (configured through RC_PARAMS), failing case written to <outfile>
//   c11 replay <file>                    re-run one saved case, bypassing rapidcheck
// Links against bpm.c from /repo (compiled with or without AVX2); bpm_256 is used when present.
#include <rapidcheck.h>

#include <algorithm>
#include <cstdint>
#include <cstdio>
#include <cstdlib>
#include <cstring>
#include <map>
#include <random>
#include <string>
#include <vector>

extern "C" {
int bpm_block(const uint8_t *t, const uint8_t *p, int n, int m);
uint8_t bpm(const uint8_t *t, const uint8_t *p, int n, int m);
uint8_t bpm_256(const uint8_t *t, const uint8_t *p, int n, int m) __attribute__((weak));
void set_broadcast_mask(void) __attribute__((weak));
}

typedef std::vector<uint8_t> SymSeq;

// min over all substrings of t (the empty one included) of the edit distance to the first `cap` symbols of p
static int sellers(const SymSeq &t, const SymSeq &p, int cap)
{
        int m = std::min<int>((int)p.size(), cap);
        std::vector<int> prev(m + 1), cur(m + 1);
        for (int i = 0; i <= m; i++) {
                prev[i] = i;
        }
        int best = prev[m];
        for (size_t j = 0; j < t.size(); j++) {
                cur[0] = 0;
                for (int i = 1; i <= m; i++) {
                        int c = prev[i - 1] + (p[i - 1] != t[j]);
                        c = std::min(c, prev[i] + 1);
                        c = std::min(c, cur[i - 1] + 1);
                        cur[i] = c;
                }
                prev.swap(cur);
                best = std::min(best, prev[m]);
        }
        return best;
}

struct Fail {
        std::string fn;
        SymSeq t, p;
        int got, want;
        bool set = false;
};
static Fail last_fail;
static std::map<std::string, long> counters;
static bool have256 = false;

// padded copies: the kernels may look at whole words
static SymSeq padded(const SymSeq &s)
{
        SymSeq r(s);
        r.resize(s.size() + 64, 0);
        return r;
}

static bool judge(const SymSeq &t, const SymSeq &p)
{
        int n = (int)t.size(), m = (int)p.size();
        SymSeq tp = padded(t), pp = padded(p);
        int want = sellers(t, p, 1024);
        int got = bpm_block(tp.data(), pp.data(), n, m);
        counters["bpm_block"]++;
        if (got != want) {
                last_fail = Fail{"bpm_block", t, p, got, want, true};
                return false;
        }
        if (m <= 63) {
                int g = bpm(tp.data(), pp.data(), n, m);
                counters["bpm"]++;
                if (g != want) {
                        last_fail = Fail{"bpm", t, p, g, want, true};
                        return false;
                }
        }
        if (have256 && m <= 255) {
                int g = bpm_256(tp.data(), pp.data(), n, m);
                counters["bpm_256"]++;
                if (g != want) {
                        last_fail = Fail{"bpm_256", t, p, g, want, true};
                        return false;
                }
        }
        if (want > 0 && want < m) {
                counters["nontrivial"]++;
                if (m > 64) {
                        counters["nontrivial_multiblock"]++;
                }
        }
        counters["blocks=" + std::to_string((std::min(m, 1024) + 63) / 64)]++;
        return true;
}

static void dump_counters(FILE *f)
{
        fprintf(f, "{");
        bool first = true;
        for (auto &kv : counters) {
                fprintf(f, "%s\"%s\":%ld", first ? "" : ",", kv.first.c_str(), kv.second);
                first = false;
        }
        fprintf(f, "}\n");
}

static void write_fail(const char *path)
{
        FILE *f = fopen(path, "w");
        if (!f) {
                return;
        }
        fprintf(f, "%s %d %d %zu %zu\n", last_fail.fn.c_str(), last_fail.got, last_fail.want, last_fail.t.size(), last_fail.p.size());
        for (auto c : last_fail.t) {
                fprintf(f, "%d ", c);
        }
        fprintf(f, "\n");
        for (auto c : last_fail.p) {
                fprintf(f, "%d ", c);
        }
        fprintf(f, "\n");
        fclose(f);
}

static int exhaustive(int sigma, int maxn)
{
        long pairs = 0;
        SymSeq t, p;
        for (int n = 1; n <= maxn; n++) {
                long nt = 1;
                for (int i = 0; i < n; i++) {
                        nt *= sigma;
                }
                for (long ti = 0; ti < nt; ti++) {
                        t.assign(n, 0);
                        long x = ti;
                        for (int i = 0; i < n; i++) {
                                t[i] = x % sigma;
                                x /= sigma;
                        }
                        for (int m = 1; m <= n; m++) {
                                long np = 1;
                                for (int i = 0; i < m; i++) {
                                        np *= sigma;
                                }
                                for (long pi = 0; pi < np; pi++) {
                                        p.assign(m, 0);
                                        long y = pi;
                                        for (int i = 0; i < m; i++) {
                                                p[i] = y % sigma;
                                                y /= sigma;
                                        }
                                        pairs++;
                                        if (!judge(t, p)) {
                                                printf("FAIL\n");
                                                return 1;
                                        }
                                }
                        }
                }
        }
        counters["pairs"] = pairs;
        return 0;
}

static const int MS[] = {1, 2, 3, 5, 31, 62, 63, 64, 65, 66, 126, 127, 128, 129, 130, 191, 192, 193, 254, 255, 256, 257, 319, 320, 321,
                         511, 512, 513, 767, 768, 769, 1022, 1023, 1024, 1025, 1026, 1100};

static SymSeq expand(std::mt19937_64 &rng, int len, int sigma, int runs)
{
        SymSeq s(len);
        int i = 0;
        while (i < len) {
                uint8_t c = rng() % sigma;
                int r = runs ? 1 + (int)(rng() % (runs * 20)) : 1;
                for (int k = 0; k < r && i < len; k++) {
                        s[i++] = c;
                }
        }
        return s;
}

static bool random_property()
{
        using namespace rc;
        int shape = *gen::resize(100, gen::inRange(0, 7));
        if (shape == 0) {
                // small, fully drawn (shrinks to a minimal counterexample)
                int sigma = *gen::resize(100, gen::inRange(1, 14));
                SymSeq t = *gen::resize(40, gen::container<SymSeq>(gen::inRange<uint8_t>(0, sigma)));
                if (t.empty()) {
                        t.push_back(0);
                }
                SymSeq p = *gen::resize(40, gen::container<SymSeq>(gen::inRange<uint8_t>(0, sigma)));
                if (p.empty()) {
                        p.push_back(0);
                }
                if (p.size() > t.size()) {
                        std::swap(p, t);
                }
                counters["shape_small"]++;
                return judge(t, p);
        }
        int sigma = *gen::resize(100, gen::inRange(1, 14));
        int mi = *gen::resize(100, gen::inRange(0, (int)(sizeof(MS) / sizeof(MS[0])) + 8));
        int m = mi < (int)(sizeof(MS) / sizeof(MS[0])) ? MS[mi] : *gen::resize(100, gen::inRange(1, 1100));
        int extra = *gen::resize(100, gen::elementOf(std::vector<int>{0, 0, 1, 2, 63, 64, 65, 200, 1000, 2900}));
        uint64_t seed = *gen::resize(100, gen::arbitrary<uint64_t>());
        int runs = *gen::resize(100, gen::inRange(0, 3));
        int muts = *gen::resize(100, gen::elementOf(std::vector<int>{0, 1, 2, 5, 20, 100}));
        std::mt19937_64 rng(seed);
        int n = m + extra;
        SymSeq t = expand(rng, n, sigma, runs);
        SymSeq p;
        if (shape <= 3) {
                // pattern = mutated substring of the text
                int start = (int)(rng() % (uint64_t)(n - m + 1));
                p.assign(t.begin() + start, t.begin() + start + m);
                for (int k = 0; k < muts && !p.empty(); k++) {
                        int op = rng() % 3;
                        size_t pos = rng() % p.size();
                        if (op == 0) {
                                p[pos] = rng() % sigma;
                        } else if (op == 1 && p.size() > 1) {
                                p.erase(p.begin() + pos);
                                p.push_back(rng() % sigma);
                        } else {
                                p.insert(p.begin() + pos, (uint8_t)(rng() % sigma));
                                p.pop_back();
                        }
                }
                counters["shape_substring"]++;
        } else if (shape == 6) {
                // call history: the routines are functions of their arguments, so a call must not depend on the call before it.
                // First a pattern cut out of the text, then 1..3 further calls whose pattern is a prefix / suffix / edited copy /
                // extension of the previous one (lengths on and next to the 64-symbol block edges), against the same or a
                // shortened text.
                int start = (int)(rng() % (uint64_t)(n - m + 1));
                p.assign(t.begin() + start, t.begin() + start + m);
                for (int k = 0; k < muts / 4 && !p.empty(); k++) {
                        p[rng() % p.size()] = rng() % sigma;
                }
                counters["shape_history"]++;
                if (!judge(t, p)) {
                        return false;
                }
                int follow = 1 + (int)(rng() % 3);
                for (int f = 0; f < follow; f++) {
                        SymSeq q;
                        int op = rng() % 5;
                        int cur = (int)p.size();
                        static const int CUTS[] = {1, 2, 10, 40, 63, 64, 65, 100, 127, 128, 129, 150, 191, 192, 193, 255, 256, 300, 511, 512, 513, 1000, 1023, 1024};
                        if (op <= 1 && cur > 1) {
                                int want = CUTS[rng() % (sizeof(CUTS) / sizeof(CUTS[0]))];
                                int len = want < cur ? want : 1 + (int)(rng() % (uint64_t)(cur - 1));
                                q.assign(p.begin(), p.begin() + len);                 // proper prefix
                        } else if (op == 2 && cur > 1) {
                                int len = 1 + (int)(rng() % (uint64_t)(cur - 1));
                                q.assign(p.end() - len, p.end());                     // proper suffix
                        } else if (op == 3) {
                                q = p;
                                q[rng() % q.size()] = rng() % sigma;                  // one symbol changed
                        } else {
                                q = p;                                                // extended (not beyond the text)
                                int add = 1 + (int)(rng() % 70);
                                for (int k = 0; k < add && (int)q.size() < n; k++) {
                                        q.push_back(rng() % sigma);
                                }
                        }
                        SymSeq t2 = t;
                        if (rng() % 3 == 0 && (int)t2.size() > (int)q.size()) {
                                t2.resize(q.size() + rng() % (t2.size() - q.size()));
                        }
                        if (q.empty() || q.size() > t2.size()) {
                                continue;
                        }
                        counters["history_followup"]++;
                        if (!judge(t2, q)) {
                                return false;
                        }
                        p = q;
                }
                return true;
        } else if (shape == 4) {
                p = expand(rng, m, sigma, runs);
                counters["shape_unrelated"]++;
        } else {
                // symbol 0 at the text end (the routine pads the text with symbol 0) and in the pattern tail
                p = expand(rng, m, sigma, runs);
                int z = 1 + (int)(rng() % 70);
                for (int k = 0; k < z && k < n; k++) {
                        t[n - 1 - k] = 0;
                }
                for (int k = 0; k < z / 2 && k < m; k++) {
                        p[m - 1 - k] = 0;
                }
                counters["shape_zero_tail"]++;
        }
        return judge(t, p);
}

int main(int argc, char **argv)
{
        if (bpm_256 && set_broadcast_mask) {
                set_broadcast_mask();
                have256 = true;
        }
        counters["have_bpm_256"] = have256;
        if (argc >= 4 && !strcmp(argv[1], "exhaustive")) {
                int rc = exhaustive(atoi(argv[2]), atoi(argv[3]));
                if (rc && argc >= 5) {
                        write_fail(argv[4]);
                }
                dump_counters(stdout);
                return rc;
        }
        if (argc >= 3 && !strcmp(argv[1], "random")) {
                bool ok = rc::check("bit-parallel distance == Sellers distance", [] { RC_ASSERT(random_property()); });
                if (!ok && last_fail.set) {
                        write_fail(argv[2]);
                }
                dump_counters(stdout);
                return ok ? 0 : 1;
        }
        if (argc >= 3 && !strcmp(argv[1], "replay")) {
                FILE *f = fopen(argv[2], "r");
                char fn[64];
                int got, want;
                size_t n, m;
                if (!f || fscanf(f, "%63s %d %d %zu %zu", fn, &got, &want, &n, &m) != 5) {
                        return 2;
                }
                SymSeq t(n), p(m);
                for (size_t i = 0; i < n; i++) {
                        int v;
                        if (fscanf(f, "%d", &v) != 1) {
                                return 2;
                        }
                        t[i] = v;
                }
                for (size_t i = 0; i < m; i++) {
                        int v;
                        if (fscanf(f, "%d", &v) != 1) {
                                return 2;
                        }
                        p[i] = v;
                }
                fclose(f);
                bool ok = judge(t, p);
                if (!ok) {
                        printf("FAIL %s got %d want %d\n", last_fail.fn.c_str(), last_fail.got, last_fail.want);
                }
                dump_counters(stdout);
                return ok ? 0 : 1;
        }
        fprintf(stderr, "usage: c11 exhaustive <sigma> <maxn> [failfile] | random <failfile> | replay <file>\n");
        return 2;
}
