/* kprobe: executes a script of kalign API calls in one process and writes one
 * JSON record per step.  This is the only harness file that includes kalign's
 * internal headers (the repository's own tests/dssim_test.c does the same).
 *
 *   kprobe <script> <result.json>
 *
 * Exit status: 0 normal; sanitizer failures use the exit codes configured by
 * the driver through ASAN_OPTIONS/UBSAN_OPTIONS/LSAN_OPTIONS; a crash is a signal.
 */
#define _GNU_SOURCE
#include <stdio.h>
#include <stdlib.h>
#include <string.h>
#include <stdint.h>
#include <unistd.h>
#include <sched.h>
#include <pthread.h>
#include <stdatomic.h>

#include "kalign/kalign.h"
#include "msa_struct.h"
#include "msa_op.h"
#include "aln_param.h"
#include "alphabet.h"
#include "aln_struct.h"
#include "task.h"
#ifdef KALIGN_VERIF
#include "kalign_verif.h"
#endif
#ifdef HAVE_OPENMP
#include <omp.h>
#endif

/* ------------------------------------------------------- heap accounting
 * Built only with -DHEAP_ACCOUNT (the un-sanitised `plain` variant): malloc/calloc/realloc/free are interposed and
 * the number of live blocks / bytes is kept, so that a `heapmark` step can report what is still allocated. */
#ifdef HEAP_ACCOUNT
#include <dlfcn.h>
#include <malloc.h>
static atomic_long live_blocks, live_bytes;
static void *(*real_malloc)(size_t);
static void *(*real_calloc)(size_t, size_t);
static void *(*real_realloc)(void *, size_t);
static void (*real_free)(void *);
static char boot_buf[65536];
static size_t boot_used;
static int resolving;
static void resolve(void)
{
        if (real_malloc || resolving) {
                return;
        }
        resolving = 1;
        real_malloc = dlsym(RTLD_NEXT, "malloc");
        real_calloc = dlsym(RTLD_NEXT, "calloc");
        real_realloc = dlsym(RTLD_NEXT, "realloc");
        real_free = dlsym(RTLD_NEXT, "free");
        resolving = 0;
}
static void *boot_alloc(size_t n)
{
        void *p = boot_buf + boot_used;
        boot_used += (n + 15) & ~(size_t)15;
        return boot_used <= sizeof(boot_buf) ? p : NULL;
}
static int is_boot(void *p)
{
        return (char *)p >= boot_buf && (char *)p < boot_buf + sizeof(boot_buf);
}
/* every block handed out here carries a 16-byte header (magic, size); free() only accounts for blocks that carry it,
   so memory obtained inside libc (getline, fopen) or through memalign is passed through untouched */
#define HA_MAGIC 0x6b616c69676e5f76ULL
struct ha_hdr {
        unsigned long long magic;
        unsigned long long size;
};
static void *ha_wrap(void *raw, size_t n)
{
        struct ha_hdr *h = raw;
        if (!raw) {
                return NULL;
        }
        h->magic = HA_MAGIC;
        h->size = n;
        atomic_fetch_add(&live_blocks, 1);
        atomic_fetch_add(&live_bytes, (long)n);
        return (char *)raw + sizeof(struct ha_hdr);
}
void *malloc(size_t n)
{
        resolve();
        if (!real_malloc) {
                return boot_alloc(n);
        }
        return ha_wrap(real_malloc(n + sizeof(struct ha_hdr)), n);
}
void *calloc(size_t a, size_t b)
{
        resolve();
        if (!real_calloc) {
                void *p = boot_alloc(a * b);
                if (p) {
                        memset(p, 0, a * b);
                }
                return p;
        }
        void *raw = real_calloc(1, a * b + sizeof(struct ha_hdr));
        return ha_wrap(raw, a * b);
}
static struct ha_hdr *ha_ours(void *p)
{
        struct ha_hdr *h = (struct ha_hdr *)((char *)p - sizeof(struct ha_hdr));
        return h->magic == HA_MAGIC ? h : NULL;
}
void *realloc(void *q, size_t n)
{
        resolve();
        if (!q) {
                return malloc(n);
        }
        if (is_boot(q)) {
                void *p = malloc(n);
                if (p) {
                        memcpy(p, q, n < 4096 ? n : 4096);
                }
                return p;
        }
        struct ha_hdr *h = ha_ours(q);
        if (!h) {
                return real_realloc(q, n);
        }
        long old = (long)h->size;
        h->magic = 0;
        void *raw = real_realloc(h, n + sizeof(struct ha_hdr));
        if (!raw) {
                h->magic = HA_MAGIC;
                return NULL;
        }
        atomic_fetch_add(&live_blocks, -1);
        atomic_fetch_add(&live_bytes, -old);
        return ha_wrap(raw, n);
}
void free(void *p)
{
        if (!p || is_boot(p)) {
                return;
        }
        resolve();
        struct ha_hdr *h = ha_ours(p);
        if (!h) {
                real_free(p);
                return;
        }
        atomic_fetch_add(&live_blocks, -1);
        atomic_fetch_add(&live_bytes, -(long)h->size);
        h->magic = 0;
        real_free(h);
}
#endif

#define OK 0
#define NSLOT 16
#define MAXTOK 64

static struct msa *slot[NSLOT];
static FILE *out;

/* ------------------------------------------------------------------ json */
static void jstr(const char *s, long n)
{
        long i;
        fputc('"', out);
        for (i = 0; i < n; i++) {
                unsigned char c = (unsigned char)s[i];
                if (c == '"' || c == '\\') {
                        fputc('\\', out);
                        fputc(c, out);
                } else if (c < 0x20 || c >= 0x7f) {
                        fprintf(out, "\\u%04x", c);
                } else {
                        fputc(c, out);
                }
        }
        fputc('"', out);
}

static void jcstr(const char *s, long max)
{
        long n = 0;
        if (!s) {
                fputs("null", out);
                return;
        }
        while (n < max && s[n]) {
                n++;
        }
        jstr(s, n);
}

/* ----------------------------------------------------------------- hooks */
#ifdef KALIGN_VERIF
struct event {
        long seq;
        int ev;
        int thread;
        long obj;
        int i, j, k;
};
struct snap {
        int node;
        int n;
        int *rank;
        int *len;
        int **gaps;
};
struct delay {
        int ev;
        int mod;
        int res;
        int action;
        atomic_int left; /* how many more matching events are delayed */
};
static atomic_long delay_budget_us = 600000; /* total injected delay per process */
static atomic_long ev_seq;
static pthread_mutex_t ev_mu = PTHREAD_MUTEX_INITIALIZER;
static struct event *evs;
static long n_evs, a_evs;
static struct snap *snaps;
static long n_snaps, a_snaps;
static struct delay delays[128];
static int n_delays;
static int want_events, want_snaps, want_params;
static char params_buf[16384];
static int params_seen;
static long memids[4096];
static int n_memids;

static int thread_id(void)
{
#ifdef HAVE_OPENMP
        /* level-aware id: combine ancestors so nested teams give distinct ids */
        int lvl = omp_get_level();
        int id = 0;
        for (int l = 1; l <= lvl; l++) {
                id = id * 64 + omp_get_ancestor_thread_num(l);
        }
        return id;
#else
        return 0;
#endif
}

static long obj_id(const void *p)
{
        /* stable small id per aln_mem pointer (pointers themselves differ run to run) */
        long v = (long)(intptr_t)p;
        for (int i = 0; i < n_memids; i++) {
                if (memids[i] == v) {
                        return i;
                }
        }
        if (n_memids < 4096) {
                memids[n_memids] = v;
                return n_memids++;
        }
        return -1;
}

static void do_delay(int action)
{
        long us = action == 2 ? 50 : action == 3 ? 1000 : action == 4 ? 10000 : 0;
        if (action == 1) {
                for (int i = 0; i < 50; i++) {
                        sched_yield();
                }
                return;
        }
        if (us > 0 && atomic_fetch_sub(&delay_budget_us, us) > 0) {
                usleep(us);
        }
}

static int canon_biotype(int b);
static void hook(int ev, const void *a, const void *b, int i, int j, int k)
{
        long s = atomic_fetch_add(&ev_seq, 1);
        int key = 0;
        (void)b;
        if (ev == KV_PARAMS) {
                if (want_params) {
                        const struct aln_param *ap = a;
                        int o = 0;
                        pthread_mutex_lock(&ev_mu);
                        o += snprintf(params_buf + o, sizeof(params_buf) - o,
                                      "{\"biotype\":%d,\"type\":%d,\"gpo\":%.9g,\"gpe\":%.9g,\"tgpe\":%.9g,\"subm\":[",
                                      canon_biotype(i), j, ap->gpo, ap->gpe, ap->tgpe);
                        for (int x = 0; x < 23; x++) {
                                for (int y = 0; y < 23; y++) {
                                        o += snprintf(params_buf + o, sizeof(params_buf) - o, "%s%.9g",
                                                      (x || y) ? "," : "", ap->subm[x][y]);
                                }
                        }
                        snprintf(params_buf + o, sizeof(params_buf) - o, "]}");
                        params_seen++;
                        pthread_mutex_unlock(&ev_mu);
                }
                return;
        }
        if (want_events) {
                pthread_mutex_lock(&ev_mu);
                if (n_evs == a_evs) {
                        a_evs = a_evs ? a_evs * 2 : 4096;
                        evs = realloc(evs, sizeof(struct event) * a_evs);
                }
                evs[n_evs].seq = s;
                evs[n_evs].ev = ev;
                evs[n_evs].thread = thread_id();
                evs[n_evs].obj = (ev >= KV_DP_FWD_BEGIN && ev <= KV_DP_MEETUP) ? obj_id(a) : 0;
                evs[n_evs].i = i;
                evs[n_evs].j = j;
                evs[n_evs].k = k;
                n_evs++;
                pthread_mutex_unlock(&ev_mu);
        }
        if (ev == KV_MERGE_END && want_snaps) {
                const struct msa *m = a;
                struct snap sn;
                sn.node = k;
                sn.n = m->nsip[k];
                sn.rank = malloc(sizeof(int) * sn.n);
                sn.len = malloc(sizeof(int) * sn.n);
                sn.gaps = malloc(sizeof(int *) * sn.n);
                for (int x = 0; x < sn.n; x++) {
                        const struct msa_seq *q = m->sequences[m->sip[k][x]];
                        sn.rank[x] = q->rank;
                        sn.len[x] = q->len;
                        sn.gaps[x] = malloc(sizeof(int) * (q->len + 1));
                        memcpy(sn.gaps[x], q->gaps, sizeof(int) * (q->len + 1));
                }
                pthread_mutex_lock(&ev_mu);
                if (n_snaps == a_snaps) {
                        a_snaps = a_snaps ? a_snaps * 2 : 256;
                        snaps = realloc(snaps, sizeof(struct snap) * a_snaps);
                }
                snaps[n_snaps++] = sn;
                pthread_mutex_unlock(&ev_mu);
        }
        if (n_delays) {
                if (ev == KV_MERGE_BEGIN || ev == KV_MERGE_END) {
                        key = k;
                } else {
                        const struct aln_mem *m = a;
                        key = m->starta + m->enda_2 + m->startb + m->len_a;
                }
                for (int d = 0; d < n_delays; d++) {
                        if (delays[d].ev == ev && (key % delays[d].mod) == delays[d].res &&
                            atomic_fetch_sub(&delays[d].left, 1) > 0) {
                                do_delay(delays[d].action);
                        }
                }
        }
}

static void dump_hook_state(void)
{
        fputs("\"events\":[", out);
        for (long x = 0; x < n_evs; x++) {
                fprintf(out, "%s[%ld,%d,%d,%ld,%d,%d,%d]", x ? "," : "", evs[x].seq, evs[x].ev, evs[x].thread,
                        evs[x].obj, evs[x].i, evs[x].j, evs[x].k);
        }
        fputs("],\"snaps\":[", out);
        for (long x = 0; x < n_snaps; x++) {
                fprintf(out, "%s{\"node\":%d,\"members\":[", x ? "," : "", snaps[x].node);
                for (int y = 0; y < snaps[x].n; y++) {
                        fprintf(out, "%s{\"rank\":%d,\"gaps\":[", y ? "," : "", snaps[x].rank[y]);
                        for (int z = 0; z <= snaps[x].len[y]; z++) {
                                fprintf(out, "%s%d", z ? "," : "", snaps[x].gaps[y][z]);
                        }
                        fputs("]}", out);
                }
                fputs("]}", out);
        }
        fputs("],\"params\":", out);
        if (params_seen) {
                fputs(params_buf, out);
        } else {
                fputs("null", out);
        }
}

static void reset_hook_state(void)
{
        for (long x = 0; x < n_snaps; x++) {
                for (int y = 0; y < snaps[x].n; y++) {
                        free(snaps[x].gaps[y]);
                }
                free(snaps[x].gaps);
                free(snaps[x].rank);
                free(snaps[x].len);
        }
        n_snaps = 0;
        n_evs = 0;
        n_memids = 0;
        params_seen = 0;
        atomic_store(&ev_seq, 0);
}
#endif

/* ------------------------------------------------------------- seq files */
struct seqset {
        int n;
        char **seq;
        int *len;
};

static char array_tail[4096] = "";

/* two application threads writing two different objects to two different files at the same time */
struct pw_arg { struct msa *m; char *path; char *fmt; int rounds; int rc; pthread_barrier_t *bar; };
static void *pw_thread(void *p)
{
        struct pw_arg *a = p;
        pthread_barrier_wait(a->bar);
        for (int i = 0; i < a->rounds; i++) {
                char pth[4096];
                snprintf(pth, sizeof(pth), "%s.%d", a->path, i);      /* every round keeps its file */
                int rc = kalign_write_msa(a->m, pth, a->fmt);
                if (rc != OK) {
                        a->rc = rc;
                }
        }
        return NULL;
}

static int read_seqset(const char *fn, struct seqset *s)
{
        FILE *f = fopen(fn, "rb");
        if (!f) {
                return 1;
        }
        if (fscanf(f, "%d\n", &s->n) != 1) {
                fclose(f);
                return 1;
        }
        s->seq = calloc(s->n ? s->n : 1, sizeof(char *));
        s->len = calloc(s->n ? s->n : 1, sizeof(int));
        for (int i = 0; i < s->n; i++) {
                if (fscanf(f, "%d", &s->len[i]) != 1) {
                        fclose(f);
                        return 1;
                }
                fgetc(f); /* newline */
                /* the array interface takes (pointer, length): what lies behind the given length in the caller's buffer is not
                   part of the sequence.  The 'tail' step sets text that is put there (before the terminating 0). */
                size_t tl = strlen(array_tail);
                s->seq[i] = malloc(s->len[i] + tl + 1);
                if (s->len[i] && fread(s->seq[i], 1, s->len[i], f) != (size_t)s->len[i]) {
                        fclose(f);
                        return 1;
                }
                memcpy(s->seq[i] + s->len[i], array_tail, tl);
                s->seq[i][s->len[i] + tl] = 0;
                fgetc(f);
        }
        fclose(f);
        return 0;
}

static void free_seqset(struct seqset *s)
{
        for (int i = 0; i < s->n; i++) {
                free(s->seq[i]);
        }
        free(s->seq);
        free(s->len);
}

/* The harness speaks in fixed codes (status: 1 unaligned, 2 aligned, 3 final, 4 unknown; kind: 0 protein, 1 nucleotide,
   2 undefined) and this file translates them with the library's own constants, so that renumbering those constants - an
   internal matter - cannot change what a check sees. */
static int canon_status(int a)
{
        return a == ALN_STATUS_FINAL ? 3 : a == ALN_STATUS_ALIGNED ? 2 : a == ALN_STATUS_UNALIGNED ? 1 : 4;
}
static int canon_biotype(int b)
{
        return b == ALN_BIOTYPE_PROTEIN ? 0 : b == ALN_BIOTYPE_DNA ? 1 : 2;
}
static int lib_biotype(int c)
{
        return c == 0 ? ALN_BIOTYPE_PROTEIN : c == 1 ? ALN_BIOTYPE_DNA : ALN_BIOTYPE_UNDEF;
}

/* ------------------------------------------------------------------ dump */
static void dump_msa(struct msa *m, int codes)
{
        if (!m) {
                fputs("\"msa\":null", out);
                return;
        }
        fprintf(out, "\"msa\":{\"numseq\":%d,\"aligned\":%d,\"alnlen\":%d,\"biotype\":%d,\"L\":%d,\"seqs\":[", m->numseq,
                canon_status(m->aligned), m->alnlen, canon_biotype(m->biotype), m->L);
        for (int i = 0; i < m->numseq; i++) {
                struct msa_seq *q = m->sequences[i];
                fprintf(out, "%s{\"name\":", i ? "," : "");
                jcstr(q->name, 1 << 20);
                fprintf(out, ",\"len\":%d,\"rank\":%d,\"seq\":", q->len, q->rank);
                /* (ALN_STATUS_UNKNOWN once had the same value as ALN_STATUS_FINAL: only a non-zero
                   alnlen says that seq[] holds the gapped row) */
                if (m->aligned == ALN_STATUS_FINAL && m->alnlen > 0) {
                        jcstr(q->seq, (long)m->alnlen + 8);
                } else {
                        jstr(q->seq, q->len);
                }
                fputs(",\"gaps\":[", out);
                for (int j = 0; j <= q->len; j++) {
                        fprintf(out, "%s%d", j ? "," : "", q->gaps[j]);
                }
                fputs("]", out);
                if (codes) {
                        fputs(",\"s\":[", out);
                        for (int j = 0; j < q->len; j++) {
                                fprintf(out, "%s%d", j ? "," : "", q->s[j]);
                        }
                        fputs("]", out);
                }
                fputs("}", out);
        }
        fputs("]}", out);
}

/* ------------------------------------------------------------------ main */
static int tokenize(char *line, char **tok)
{
        int n = 0;
        char *p = strtok(line, " \t\r\n");
        while (p && n < MAXTOK) {
                tok[n++] = p;
                p = strtok(NULL, " \t\r\n");
        }
        return n;
}

static char *nullable(char *t)
{
        return (strcmp(t, "-") == 0) ? NULL : t;
}

int main(int argc, char **argv)
{
        FILE *sf;
        char *line = NULL;
        size_t cap = 0;
        int step = 0;
        if (argc < 3) {
                fprintf(stderr, "usage: kprobe script result\n");
                return 2;
        }
#ifdef HEAP_ACCOUNT
        /* kalign logs to stdout: give stdio a static buffer so that its one-time allocation is not counted */
        static char stdout_buf[1 << 16];
        setvbuf(stdout, stdout_buf, _IOFBF, sizeof(stdout_buf));
#endif
        sf = fopen(argv[1], "r");
        out = fopen(argv[2], "w");
        if (!sf || !out) {
                fprintf(stderr, "kprobe: cannot open script/result\n");
                return 2;
        }
        fputs("[", out);
        while (getline(&line, &cap, sf) != -1) {
                char *tok[MAXTOK];
                int nt = tokenize(line, tok);
                if (!nt || tok[0][0] == '#') {
                        continue;
                }
                fprintf(out, "%s\n{\"step\":%d,\"op\":\"%s\",", step ? "," : "", step, tok[0]);
                step++;
                if (!strcmp(tok[0], "arr") && nt >= 7) {
                        struct seqset s;
                        char **aligned = NULL;
                        int alnlen = -1;
                        int rc;
                        if (read_seqset(tok[1], &s)) {
                                fprintf(stderr, "kprobe: bad seqset\n");
                                return 2;
                        }
                        rc = kalign(s.seq, s.len, s.n, atoi(tok[2]), atoi(tok[3]), atof(tok[4]), atof(tok[5]),
                                    atof(tok[6]), &aligned, &alnlen);
                        fprintf(out, "\"rc\":%d,\"alnlen\":%d,\"rows\":", rc, alnlen);
                        if (rc == OK && aligned) {
                                /* kalign() returns one row per non-empty input and has no
                                   other way of saying how many rows there are */
                                int nrows = 0;
                                for (int i = 0; i < s.n; i++) {
                                        nrows += s.len[i] > 0;
                                }
                                fputs("[", out);
                                for (int i = 0; i < nrows; i++) {
                                        if (i) {
                                                fputs(",", out);
                                        }
                                        jcstr(aligned[i], (long)alnlen + 8);
                                        free(aligned[i]);
                                }
                                fputs("]", out);
                                free(aligned);
                        } else {
                                fputs("null", out);
                        }
                        free_seqset(&s);
#ifdef KALIGN_VERIF
                        if (want_events || want_snaps || want_params) {
                                fputs(",", out);
                                dump_hook_state();
                                reset_hook_state();
                        }
#endif
                } else if (!strcmp(tok[0], "arr2msa") && nt >= 3) {
                        struct seqset s;
                        int sl = atoi(tok[1]);
                        int rc;
                        if (read_seqset(tok[2], &s)) {
                                fprintf(stderr, "kprobe: bad seqset\n");
                                return 2;
                        }
                        rc = kalign_arr_to_msa(s.seq, s.len, s.n, &slot[sl]);
                        fprintf(out, "\"rc\":%d,\"null\":%d", rc, slot[sl] == NULL);
                        free_seqset(&s);
                } else if (!strcmp(tok[0], "read") && nt >= 4) {
                        int sl = atoi(tok[1]);
                        int rc = kalign_read_input(nullable(tok[3]), &slot[sl], atoi(tok[2]));
                        fprintf(out, "\"rc\":%d,\"null\":%d", rc, slot[sl] == NULL);
                } else if (!strcmp(tok[0], "run") && nt >= 7) {
                        int sl = atoi(tok[1]);
                        int rc = kalign_run(slot[sl], atoi(tok[2]), atoi(tok[3]), atof(tok[4]), atof(tok[5]), atof(tok[6]));
                        fprintf(out, "\"rc\":%d", rc);
#ifdef KALIGN_VERIF
                        if (want_events || want_snaps || want_params) {
                                fputs(",", out);
                                dump_hook_state();
                                reset_hook_state();
                        }
#endif
                } else if (!strcmp(tok[0], "write") && nt >= 4) {
                        int sl = atoi(tok[1]);
                        int rc = kalign_write_msa(slot[sl], nullable(tok[3]), nullable(tok[2]));
                        fflush(stdout);
                        fprintf(out, "\"rc\":%d", rc);
                } else if (!strcmp(tok[0], "dump") && nt >= 2) {
                        int sl = atoi(tok[1]);
                        dump_msa(slot[sl], nt >= 3 ? atoi(tok[2]) : 0);
                } else if (!strcmp(tok[0], "finalise") && nt >= 2) {
                        int sl = atoi(tok[1]);
                        int rc = -2;
                        if (slot[sl] && slot[sl]->aligned == ALN_STATUS_ALIGNED) {
                                rc = finalise_alignment(slot[sl]);
                        }
                        fprintf(out, "\"rc\":%d", rc);
                } else if (!strcmp(tok[0], "pwrite") && nt >= 8) {
                        /* pwrite rounds slotA fmtA pathA slotB fmtB pathB */
                        pthread_barrier_t bar;
                        pthread_t th[2];
                        struct pw_arg a[2] = {{slot[atoi(tok[2])], tok[4], tok[3], atoi(tok[1]), OK, &bar}, {slot[atoi(tok[5])], tok[7], tok[6], atoi(tok[1]), OK, &bar}};
                        int rc = -2;
                        if (a[0].m && a[1].m) {
                                pthread_barrier_init(&bar, NULL, 2);
                                pthread_create(&th[0], NULL, pw_thread, &a[0]);
                                pthread_create(&th[1], NULL, pw_thread, &a[1]);
                                pthread_join(th[0], NULL);
                                pthread_join(th[1], NULL);
                                pthread_barrier_destroy(&bar);
                                rc = (a[0].rc == OK && a[1].rc == OK) ? 0 : 1;
                        }
                        fprintf(out, "\"rc\":%d", rc);
                } else if (!strcmp(tok[0], "tail")) {
                        /* tail [text]: text placed behind the given length of every array-API buffer from now on */
                        snprintf(array_tail, sizeof(array_tail), "%s", nt >= 2 ? tok[1] : "");
                        fprintf(out, "\"rc\":0");
                } else if (!strcmp(tok[0], "checkmsa") && nt >= 3) {
                        /* kalign_check_msa(msa, exit_on_error): duplicate names / duplicate sequences */
                        int sl = atoi(tok[1]);
                        int rc = -2;
                        if (slot[sl]) {
                                rc = kalign_check_msa(slot[sl], atoi(tok[2]));
                        }
                        fprintf(out, "\"rc\":%d", rc);
                } else if (!strcmp(tok[0], "reformat") && nt >= 4) {
                        /* reformat_settings_msa(msa, rename, unalign) */
                        int sl = atoi(tok[1]);
                        int rc = -2;
                        if (slot[sl]) {
                                rc = reformat_settings_msa(slot[sl], atoi(tok[2]), atoi(tok[3]));
                        }
                        fprintf(out, "\"rc\":%d", rc);
                } else if (!strcmp(tok[0], "compare") && nt >= 3) {
                        float score = -1.0f;
                        int rc = kalign_msa_compare(slot[atoi(tok[1])], slot[atoi(tok[2])], &score);
                        fprintf(out, "\"rc\":%d,\"score\":%.9g", rc, score);
                } else if (!strcmp(tok[0], "free") && nt >= 2) {
                        int sl = atoi(tok[1]);
                        kalign_free_msa(slot[sl]);
                        slot[sl] = NULL;
                        fputs("\"rc\":0", out);
                } else if (!strcmp(tok[0], "forget") && nt >= 2) {
                        /* drop the handle without freeing (what a caller does after a failed read) */
                        slot[atoi(tok[1])] = NULL;
                        fputs("\"rc\":0", out);
                } else if (!strcmp(tok[0], "param") && nt >= 6) {
                        struct aln_param *ap = NULL;
                        int rc = aln_param_init(&ap, lib_biotype(atoi(tok[1])), 1, atoi(tok[2]), atof(tok[3]), atof(tok[4]), atof(tok[5]));
                        fprintf(out, "\"rc\":%d", rc);
                        if (rc == OK && ap) {
                                fprintf(out, ",\"gpo\":%.9g,\"gpe\":%.9g,\"tgpe\":%.9g,\"subm\":[", ap->gpo, ap->gpe, ap->tgpe);
                                for (int x = 0; x < 23; x++) {
                                        for (int y = 0; y < 23; y++) {
                                                fprintf(out, "%s%.9g", (x || y) ? "," : "", ap->subm[x][y]);
                                        }
                                }
                                fputs("]", out);
                                aln_param_free(ap);
                        }
                } else if (!strcmp(tok[0], "scribble") && nt >= 4) {
                        /* the application's own heap traffic between library calls */
                        int cnt = atoi(tok[1]);
                        int size = atoi(tok[2]);
                        int byte = atoi(tok[3]);
                        void **blk = malloc(sizeof(void *) * (cnt > 0 ? cnt : 1));
                        for (int i = 0; i < cnt; i++) {
                                blk[i] = malloc(size > 0 ? size : 1);
                                memset(blk[i], byte, size > 0 ? size : 1);
                        }
                        for (int i = 0; i < cnt; i += 2) {
                                free(blk[i]);
                        }
                        for (int i = 1; i < cnt; i += 2) {
                                free(blk[i]);
                        }
                        free(blk);
                        fputs("\"rc\":0", out);
                } else if (!strcmp(tok[0], "alphabet") && nt >= 2) {
                        /* the letter -> internal code table of one of kalign's alphabets (5 DNA, 13 reduced protein,
                           21 / 23 protein) */
                        struct alphabet *al = create_alphabet(atoi(tok[1]));
                        if (!al) {
                                fputs("\"rc\":1", out);
                        } else {
                                fprintf(out, "\"rc\":0,\"L\":%d,\"to_internal\":[", al->L);
                                for (int i = 0; i < 128; i++) {
                                        fprintf(out, "%s%d", i ? "," : "", al->to_internal[i]);
                                }
                                fputs("]", out);
                                free(al);
                        }
                } else if (!strcmp(tok[0], "heapmark")) {
#ifdef HEAP_ACCOUNT
                        fprintf(out, "\"rc\":0,\"live_blocks\":%ld,\"live_bytes\":%ld", atomic_load(&live_blocks), atomic_load(&live_bytes));
#else
                        fputs("\"rc\":-1", out);
#endif
                } else if (!strcmp(tok[0], "hook") && nt >= 4) {
#ifdef KALIGN_VERIF
                        want_events = atoi(tok[1]);
                        want_snaps = atoi(tok[2]);
                        want_params = atoi(tok[3]);
                        kalign_verif_hook = (want_events || want_snaps || want_params || n_delays) ? hook : NULL;
                        fputs("\"rc\":0", out);
#else
                        fputs("\"rc\":-1", out);
#endif
                } else if (!strcmp(tok[0], "delay") && nt >= 5) {
#ifdef KALIGN_VERIF
                        if (n_delays < 128) {
                                delays[n_delays].ev = atoi(tok[1]);
                                delays[n_delays].mod = atoi(tok[2]) > 0 ? atoi(tok[2]) : 1;
                                delays[n_delays].res = atoi(tok[3]);
                                delays[n_delays].action = atoi(tok[4]);
                                atomic_store(&delays[n_delays].left, nt >= 6 ? atoi(tok[5]) : 20);
                                n_delays++;
                        }
                        kalign_verif_hook = hook;
                        fputs("\"rc\":0", out);
#else
                        fputs("\"rc\":-1", out);
#endif
                } else {
                        fprintf(stderr, "kprobe: bad step: %s\n", tok[0]);
                        return 2;
                }
                fputs("}", out);
                fflush(out);
        }
        fputs("\n]\n", out);
        fclose(out);
        fclose(sf);
        free(line);
#ifdef KALIGN_VERIF
        reset_hook_state();
        free(evs);
        free(snaps);
#endif
        return 0;
}
