// libFuzzer target for C05: bytes -> (options, 1..3 input file bodies) -> kalign_read_input x k -> kalign_run ->
// in-target oracle (C01 predicate against what was read) -> kalign_write_msa x 3 -> kalign_free_msa.
// Built with -fsanitize=fuzzer,address,undefined against the `fuzz` variant of libkalign (no OpenMP).
#include <fuzzer/FuzzedDataProvider.h>

#include <cstdint>
#include <cstdio>
#include <cstdlib>
#include <cstring>
#include <string>
#include <vector>

#include <fcntl.h>
#include <sys/mman.h>
#include <unistd.h>

extern "C" {
#include "kalign/kalign.h"
#include "msa_struct.h"
}

static long n_exec, n_read_ok, n_run_ok, n_run_fail, n_written, n_reject_read;
static const char *stats_path;

static void flush_stats()
{
        if (!stats_path) {
                return;
        }
        FILE *f = fopen(stats_path, "w");
        if (f) {
                fprintf(f, "{\"exec\":%ld,\"read_ok\":%ld,\"run_ok\":%ld,\"run_fail\":%ld,\"written\":%ld,\"read_rejected\":%ld}\n", n_exec,
                        n_read_ok, n_run_ok, n_run_fail, n_written, n_reject_read);
                fclose(f);
        }
}

extern "C" int LLVMFuzzerInitialize(int *, char ***)
{
        stats_path = getenv("KFUZZ_STATS");
        // kalign logs to stdout; keep the fuzzer's own stderr
        if (!freopen("/dev/null", "w", stdout)) {
                return 0;
        }
        atexit(flush_stats);
        return 0;
}

[[noreturn]] static void fail(const char *what)
{
        fprintf(stderr, "ORACLE-VIOLATION: %s\n", what);
        flush_stats();
        __builtin_trap();
}

static int make_file(const std::string &body, std::string *path)
{
        int fd = memfd_create("kfuzz", 0);
        if (fd < 0) {
                return -1;
        }
        if (!body.empty() && write(fd, body.data(), body.size()) != (ssize_t)body.size()) {
                close(fd);
                return -1;
        }
        *path = "/proc/self/fd/" + std::to_string(fd);
        return fd;
}

extern "C" void __lsan_disable(void);
extern "C" void __lsan_enable(void);
extern "C" int __lsan_do_recoverable_leak_check(void);

static int one_input(const uint8_t *data, size_t size, bool count);

// The property claims "no leak on the success path" only.  Each input is therefore executed first with leak
// recording disabled to learn which path it takes; successful inputs are executed again with recording on and
// LeakSanitizer is asked for a verdict right after.  (libFuzzer's own per-iteration check is switched off.)
extern "C" int LLVMFuzzerTestOneInput(const uint8_t *data, size_t size)
{
        __lsan_disable();
        int ok = one_input(data, size, true);
        __lsan_enable();
        if (ok == 1) {
                one_input(data, size, false);
                if (__lsan_do_recoverable_leak_check()) {
                        fprintf(stderr, "ORACLE-VIOLATION: memory leaked on a successful read->run->write->free\n");
                        flush_stats();
                        __builtin_trap();
                }
        }
        return 0;
}

static int one_input(const uint8_t *data, size_t size, bool count)
{
        FuzzedDataProvider fdp(data, size);
        if (!count) {
                n_exec--;
                n_read_ok--;
                n_run_ok--;
                n_written -= 3;
        }
        n_exec++;
        if ((n_exec & 1023) == 0) {
                flush_stats();
        }
        int type = fdp.ConsumeIntegralInRange<int>(0, 6);
        static const float pens[] = {-1.0f, -1.0f, -1.0f, 0.0f, 0.5f, 2.0f, 8.0f, 55.0f, 217.0f};
        float gpo = pens[fdp.ConsumeIntegralInRange<int>(0, 8)];
        float gpe = pens[fdp.ConsumeIntegralInRange<int>(0, 8)];
        float tgpe = pens[fdp.ConsumeIntegralInRange<int>(0, 8)];
        int nfiles = fdp.ConsumeIntegralInRange<int>(1, 3);
        std::vector<std::string> bodies;
        for (int i = 0; i < nfiles; i++) {
                if (i == nfiles - 1) {
                        bodies.push_back(fdp.ConsumeRemainingBytesAsString());
                } else {
                        bodies.push_back(fdp.ConsumeRandomLengthString(2048));
                }
        }
        struct msa *msa = NULL;
        bool read_failed = false;
        std::vector<int> fds;
        for (auto &b : bodies) {
                std::string path;
                int fd = make_file(b, &path);
                if (fd < 0) {
                        continue;
                }
                fds.push_back(fd);
                int rc = kalign_read_input((char *)path.c_str(), &msa, 1);
                if (rc != 0) {
                        read_failed = true;
                        break;
                }
        }
        for (int fd : fds) {
                close(fd);
        }
        if (read_failed || !msa) {
                n_reject_read++;
                kalign_free_msa(msa); // what the CLI does on a failed read
                return 0;
        }
        n_read_ok++;
        // what was read: the truth for the oracle
        std::vector<std::string> names, res;
        for (int i = 0; i < msa->numseq; i++) {
                struct msa_seq *q = msa->sequences[i];
                if (q->len > 0) {
                        names.push_back(q->name ? q->name : "");
                        res.push_back(std::string(q->seq, q->seq + q->len));
                }
        }
        int rc = kalign_run(msa, 1, type, gpo, gpe, tgpe);
        if (rc != 0) {
                n_run_fail++;
                kalign_free_msa(msa);
                return 0;
        }
        n_run_ok++;
        if (msa->numseq != (int)res.size()) {
                fail("row count differs from the number of non-empty sequences read");
        }
        if (msa->aligned != ALN_STATUS_FINAL || msa->alnlen <= 0) {
                fail("successful run without a finalised alignment");
        }
        for (int i = 0; i < msa->numseq; i++) {
                struct msa_seq *q = msa->sequences[i];
                if ((int)strlen(q->seq) != msa->alnlen) {
                        fail("row length differs from alnlen");
                }
                std::string d;
                for (int j = 0; j < msa->alnlen; j++) {
                        if (q->seq[j] != '-') {
                                d.push_back(q->seq[j]);
                        }
                }
                if (d != res[i]) {
                        fail("row without gaps differs from the residues read");
                }
                if (names[i] != (q->name ? q->name : "")) {
                        fail("row name differs from the name read");
                }
        }
        for (int j = 0; j < msa->alnlen; j++) {
                bool all = true;
                for (int i = 0; i < msa->numseq && all; i++) {
                        all = msa->sequences[i]->seq[j] == '-';
                }
                if (all) {
                        fail("column of gaps only");
                }
        }
        static const char *fmts[] = {"fasta", "msf", "clu"};
        for (const char *fmt : fmts) {
                int fd = memfd_create("kout", 0);
                if (fd < 0) {
                        continue;
                }
                std::string path = "/proc/self/fd/" + std::to_string(fd);
                int wrc = kalign_write_msa(msa, (char *)path.c_str(), (char *)fmt);
                if (wrc != 0) {
                        fail("kalign_write_msa failed on a finalised alignment");
                }
                off_t sz = lseek(fd, 0, SEEK_END);
                if (sz <= 0) {
                        fail("written file is empty");
                }
                n_written++;
                close(fd);
        }
        kalign_free_msa(msa);
        return 1;
}
