// libFuzzer target for C05: kalign() on arbitrary byte strings (bytes >= 0x80, punctuation, digits, embedded gaps).
#include <fuzzer/FuzzedDataProvider.h>

#include <cstdint>
#include <cstdio>
#include <cstdlib>
#include <cstring>
#include <string>
#include <vector>

extern "C" {
#include "kalign/kalign.h"
}

static long n_exec, n_ok, n_fail;
static const char *stats_path;

static void flush_stats()
{
        if (!stats_path) {
                return;
        }
        FILE *f = fopen(stats_path, "w");
        if (f) {
                fprintf(f, "{\"exec\":%ld,\"run_ok\":%ld,\"run_fail\":%ld}\n", n_exec, n_ok, n_fail);
                fclose(f);
        }
}

extern "C" int LLVMFuzzerInitialize(int *, char ***)
{
        stats_path = getenv("KFUZZ_STATS");
        if (!freopen("/dev/null", "w", stdout)) {
                return 0;
        }
        atexit(flush_stats);
        return 0;
}

[[noreturn]] static void fail(const char *what)
{
        fprintf(stderr, "ORACLE-VIOLATION: %s\n", what);
        flush_stats();
        __builtin_trap();
}

extern "C" void __lsan_disable(void);
extern "C" void __lsan_enable(void);
extern "C" int __lsan_do_recoverable_leak_check(void);
static int one_input(const uint8_t *data, size_t size, bool count);

// leak verdict only for inputs on the success path (see fuzz_pipeline.cc)
extern "C" int LLVMFuzzerTestOneInput(const uint8_t *data, size_t size)
{
        __lsan_disable();
        int ok = one_input(data, size, true);
        __lsan_enable();
        if (ok == 1) {
                one_input(data, size, false);
                if (__lsan_do_recoverable_leak_check()) {
                        fprintf(stderr, "ORACLE-VIOLATION: memory leaked on a successful kalign() call\n");
                        flush_stats();
                        __builtin_trap();
                }
        }
        return 0;
}

static int one_input(const uint8_t *data, size_t size, bool count)
{
        FuzzedDataProvider fdp(data, size);
        if (!count) {
                n_exec--;
                n_ok--;
        }
        n_exec++;
        if ((n_exec & 1023) == 0) {
                flush_stats();
        }
        int type = fdp.ConsumeIntegralInRange<int>(0, 6);
        int n = fdp.ConsumeIntegralInRange<int>(2, 8);
        int mode = fdp.ConsumeIntegralInRange<int>(0, 2); // 0 raw bytes, 1 letters only, 2 nucleotide-ish
        std::vector<std::string> seqs;
        for (int i = 0; i < n; i++) {
                std::string s = (i == n - 1) ? fdp.ConsumeRemainingBytesAsString() : fdp.ConsumeRandomLengthString(600);
                for (auto &c : s) {
                        if (c == 0) {
                                c = 'A';
                        }
                        if (mode == 1) {
                                c = 'A' + ((unsigned char)c % 26);
                        } else if (mode == 2) {
                                c = "ACGTUNacgtRYKM"[(unsigned char)c % 14];
                        }
                }
                seqs.push_back(s);
        }
        std::vector<char *> ptr;
        std::vector<int> len;
        int nonempty = 0;
        for (auto &s : seqs) {
                ptr.push_back((char *)s.c_str());
                len.push_back((int)s.size());
                nonempty += !s.empty();
        }
        char **aligned = NULL;
        int alnlen = 0;
        int rc = kalign(ptr.data(), len.data(), n, 1, type, -1.0f, -1.0f, -1.0f, &aligned, &alnlen);
        if (rc != 0) {
                n_fail++;
                return 0;
        }
        n_ok++;
        int r = 0;
        for (int i = 0; i < n; i++) {
                if (seqs[i].empty()) {
                        continue;
                }
                const char *row = aligned[r];
                if ((int)strlen(row) != alnlen) {
                        fail("row length differs from the reported alignment length");
                }
                // kalign() treats every input byte as a residue; '-' in the input cannot be told from an inserted gap,
                // so compare the rows with '-' removed on both sides
                std::string d, want;
                for (const char *p = row; *p; p++) {
                        if (*p != '-') {
                                d.push_back(*p);
                        }
                }
                for (char c : seqs[i]) {
                        if (c != '-') {
                                want.push_back(c);
                        }
                }
                if (d != want) {
                        fail("row without gaps differs from the input sequence");
                }
                r++;
        }
        for (int i = 0; i < nonempty; i++) {
                free(aligned[i]);
        }
        free(aligned);
        return 1;
}
