#!/bin/sh
# Build the parts of the framework that do not depend on /repo (offline, from files on disk only).
set -e
cd "$(dirname "$0")"
mkdir -p build/tmp build/cache evidence replay
if [ -f native/oracle/oracle.cpp ]; then
  g++ -O2 -g -shared -fPIC -std=gnu++17 -o build/liboracle.so native/oracle/oracle.cpp
fi
if [ -f native/c11_main.cpp ]; then
  # rapidcheck TU is slow to compile: do it once here; bpm.c is compiled per tree by the check
  g++ -O2 -g -std=gnu++17 -mavx2 -c native/c11_main.cpp -o build/c11_main.o
fi
python3-vt -c "import hypothesis; print('hypothesis', hypothesis.__version__)"
echo setup ok
