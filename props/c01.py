"""C01 Alignment integrity: every input sequence is reproduced exactly."""
import random
import re

from hypothesis import strategies as st

from vlib import engine, formats, gen, kal, oracle

ID = "C01"
RULE = ("Hypothesis draws a sequence set (small fully-drawn families, expanded families up to the tier's size, "
        "unrelated sets, degenerate sets; optional duplicates, case, empty members for file entry points), names, "
        "alignment type admissible for the kind, gap penalties, thread count and one of 15 entry points "
        "(kalign(), read+run+dump, read+run+write x3 formats, CLI -o x3 formats, CLI stdout x3, and four object histories ending in a dump: aligned twice; a rejected run first; records read from two files; the second file appended after a first alignment). Oracle: the C01 validity "
        "predicate over the returned rows / the independently parsed file. Non-trivial = >=2 distinct sequences and "
        ">=1 gap in the result; distinct by hash of (inputs, names, config, entry).")
ASSUMPTIONS = ["names are drawn from [A-Za-z0-9_.|-] for MSF/Clustal (their name column ends at the first blank); FASTA / object entry points also get names with blanks and punctuation",
               "kalign() cannot report how many rows it returns; the probe reads one row per non-empty input"]
BUDGET = {"quick": dict(examples=600, workers=12, seconds=70),
          "thorough": dict(examples=1500, workers=16, seconds=840)}

# "hist:*": the msa object has a history before the alignment that is dumped - aligned twice; a rejected run (type of the other
# kind) first; the records read from two files; the second file appended only after the first part has been aligned once
ENTRIES = ["arr", "dump", "hist:rerun", "hist:failfirst", "hist:twofiles", "hist:append", "write:fasta", "write:msf", "write:clu", "cli:fasta", "cli:msf", "cli:clu", "stdout:fasta",
           "stdout:clu", "stdout:msf"]
_LOG = re.compile(r"^\[\d{4}-\d\d-\d\d \d\d:\d\d:\d\d\] :")


@st.composite
def cases(draw, tier):
    big = tier == "thorough"
    size = draw(st.sampled_from(["s", "s", "s", "s", "m", "m", "l", "l", "many", "long"] if not big else ["s", "m", "m", "l", "xl", "many", "long"]))
    if size == "s":
        ss = draw(gen.seqsets(max_n=12, max_len=60))
    elif size == "m":
        ss = draw(gen.seqsets(max_n=60, max_len=400))
    elif size == "many":
        # around the readers' array increments (512 sequences, 1024 lines): very many very short sequences
        k, alpha = draw(gen.alphabets())
        n = draw(st.sampled_from([511, 512, 513, 600, 1023, 1024, 1025]))
        seqs = gen.expand_random(draw(st.integers(0, 2 ** 32 - 1)), alpha, n, 1, draw(st.integers(1, 6)))
        ss = {"kind": gen.expected_kind(seqs), "seqs": seqs, "shape": "many"}
    elif size == "long":
        # beyond the 1024-symbol cap of the distance kernel and the 512-residue buffer increments
        k, alpha = draw(gen.alphabets())
        seqs = draw(gen.big_family(alpha, min_n=2, max_n=4, max_len=draw(st.sampled_from([1030, 1100, 1600]))))
        ss = {"kind": gen.expected_kind(seqs), "seqs": seqs, "shape": "long"}
    elif size == "l":
        # >= 100 sequences (k-means) or >= 500 columns (parallel Hirschberg)
        k, alpha = draw(gen.alphabets())
        pick = draw(st.integers(0, 2))
        if pick == 0:
            seqs = draw(gen.big_family(alpha, min_n=100, max_n=160, max_len=60))
        elif pick == 1:
            seqs = draw(gen.big_family(alpha, min_n=2, max_n=5, max_len=900))
        else:
            # >= 100 copies of one sequence (even and odd counts: groups no clustering step can separate) plus a few variants
            # that force gap columns
            rnd = random.Random(draw(st.integers(0, 2 ** 32 - 1)))
            base = "".join(rnd.choice(alpha) for _ in range(draw(st.integers(5, 60))))
            seqs = [base] * draw(st.integers(100, 310))
            for _ in range(draw(st.integers(1, 7))):
                seqs.insert(draw(st.integers(0, len(seqs))), gen.mutate(rnd, base, alpha, 0.05, 0.1, 0.05) or base)
        ss = {"kind": gen.expected_kind(seqs), "seqs": seqs, "shape": "large"}
    else:
        k, alpha = draw(gen.alphabets())
        if draw(st.booleans()):
            seqs = draw(gen.big_family(alpha, min_n=300, max_n=1200, max_len=80))
        else:
            seqs = draw(gen.big_family(alpha, min_n=2, max_n=6, max_len=3000))
        ss = {"kind": gen.expected_kind(seqs), "seqs": seqs, "shape": "xlarge"}
    seqs = list(ss["seqs"])
    entry = draw(st.sampled_from(ENTRIES))
    if entry != "arr" or True:
        # empty members (dropped by kalign): only meaningful where >= 2 non-empty remain
        if draw(st.integers(0, 5)) == 0:
            pos = draw(st.integers(0, len(seqs)))
            seqs.insert(pos, "")
    if entry in ("arr", "dump", "write:fasta", "cli:fasta", "stdout:fasta") and draw(st.integers(0, 3)) == 0:
        # FASTA keeps the whole header line as the name: blanks and other printable characters are part of it
        names = draw(gen.names_for(len(seqs), max_len=40, charset=gen.NAME_CHARS + " /:;,()[]=+#@!$%&*'\"?<~^{}", long_names=False))
        names = [n.strip() or "n%d" % i for i, n in enumerate(names)]
        if len(set(names)) != len(names):
            names = ["%s %d" % (n, i) for i, n in enumerate(names)]
    else:
        names = draw(gen.names_for(len(seqs)))
    if draw(st.integers(0, 9)) == 0:
        # FASTA headers longer than the 256-character name buffers of the block formats (those formats carry the first
        # 255 characters; the rows must be unaffected)
        k = draw(st.integers(0, len(names) - 1))
        names[k] = (names[k] + "_" + "h" * 400)[:draw(st.sampled_from([256, 257, 262, 263, 270, 300, 322, 400]))]
        if len(set(n[:255] for n in names)) != len(names):
            names[k] = ("%d" % k + names[k])[:len(names[k])]
    cfg = {"type": draw(gen.types_for(ss["kind"])), "threads": draw(gen.threads)}
    cfg["gpo"], cfg["gpe"], cfg["tgpe"] = draw(gen.penalties())
    return {"names": names, "seqs": seqs, "cfg": cfg, "entry": entry, "kind": ss["kind"], "shape": ss["shape"], "hist_cut": draw(st.integers(0, 60)),
            "final_newline": draw(st.sampled_from([True, True, True, False])),
            # the input file may already contain gap characters / punctuation (an existing alignment, '*' terminators):
            # none, sprinkled everywhere, only in the records after a drawn index, or a trailing '*' on some records
            "ingaps": draw(st.sampled_from(["none", "none", "none", "random", "late", "star"])),
            "ingap_seed": draw(st.integers(0, 2 ** 16)), "ingap_from": draw(st.integers(0, 70))}


def strategy(tier):
    return cases(tier)


def present_with_gaps(case):
    """the records as they are written into the input file (gap characters are not residues)"""
    import random
    seqs = case["seqs"]
    mode = case.get("ingaps", "none")
    if mode == "none":
        return seqs
    rnd = random.Random(case.get("ingap_seed", 0))
    start = min(case.get("ingap_from", 0), max(0, len(seqs) - 1)) if mode == "late" else 0
    out = []
    for i, s in enumerate(seqs):
        if not s or i < start:
            out.append(s)
        elif mode == "star":
            out.append(s + ("*" if rnd.random() < 0.5 or i == len(seqs) - 1 else ""))
        else:
            r = []
            for c in s:
                if rnd.random() < 0.1:
                    r.append(rnd.choice("-.~") * rnd.randint(1, 3))
                r.append(c)
            if rnd.random() < 0.3:
                r.append("-" * rnd.randint(1, 4))
            out.append("".join(r))
    return out


def _strip_log(text):
    lines = text.split("\n")
    last = -1
    for i, ln in enumerate(lines):
        if _LOG.match(ln):
            last = i
    return "\n".join(lines[last + 1:])


def classes_of(case, rows):
    c = ["entry=" + case["entry"], "kind=%s" % case["kind"], "shape=" + case["shape"],
         "type=%d" % case["cfg"]["type"], "threads>1" if case["cfg"]["threads"] > 1 else "threads=1"]
    n = len([s for s in case["seqs"] if s])
    if n >= 100:
        c.append("n>=100")
    if n >= 512:
        c.append("n>=512")
    if max(len(s) for s in case["seqs"]) >= 500:
        c.append("len>=500")
    if "" in case["seqs"]:
        c.append("has_empty")
    if case["cfg"]["gpo"] >= 0 or case["cfg"]["gpe"] >= 0 or case["cfg"]["tgpe"] >= 0:
        c.append("explicit_penalty")
    if rows and oracle.has_gap(rows):
        c.append("gapped")
    if not case.get("final_newline", True):
        c.append("no_final_newline")
    if case.get("ingaps", "none") != "none" and case["entry"] != "arr":
        c.append("input_has_gap_chars=" + case["ingaps"])
    if any(len(n) > 255 for n in case["names"]):
        c.append("name>255")
    if any(" " in n or ":" in n for n in case["names"]):
        c.append("rich_names")
    return c


def check(case):
    names, seqs, cfg, entry = case["names"], case["seqs"], case["cfg"], case["entry"]
    ne = [(n, s) for n, s in zip(names, seqs) if s]
    in_names = [n for n, _ in ne]
    in_seqs = [s for _, s in ne]
    if len(in_seqs) < 2:
        return engine.discard("fewer than two non-empty sequences")
    try:
        if entry == "arr":
            r = kal.run_arr(seqs, cfg)
            if r["rc"] != 0:
                return engine.violation({"what": "kalign() failed on a valid input", "rc": r["rc"]}, kind="status")
            out_names, rows, alnlen = None, r["rows"], r["alnlen"]
        else:
            wd = kal.runner.workdir()
            body = kal.fasta_bytes(names, present_with_gaps(case), width=0)
            if not case.get("final_newline", True) and seqs[-1]:
                body = body.rstrip(b"\n")      # a file whose last byte is a residue
            fp = wd.write(body, ".fa")
            if entry.startswith("hist:"):
                how = entry.split(":")[1]
                cut = 1 + case.get("hist_cut", 0) % max(1, len(seqs) - 1)
                pg = present_with_gaps(case)
                run = "run 0 %s" % kal.cfg_args(cfg)
                if how in ("twofiles", "append") and len(seqs) >= 2:
                    f1 = wd.write(kal.fasta_bytes(names[:cut], pg[:cut], width=0), ".fa")
                    f2 = wd.write(kal.fasta_bytes(names[cut:], pg[cut:], width=0), ".fa")
                    lines = ["read 0 1 %s" % f1] + ([run] if how == "append" else []) + ["read 0 1 %s" % f2, run, "dump 0", "free 0"]
                elif how == "failfirst" and case.get("kind") in ("dna", "protein"):
                    lines = ["read 0 1 %s" % fp, "run 0 %s" % kal.cfg_args(dict(cfg, type=3 if case["kind"] == "dna" else 0)), run, "dump 0", "free 0"]
                else:
                    lines = ["read 0 1 %s" % fp, run, run, "dump 0", "free 0"]
                pr = kal.runner.run_probe(lines)
                if pr.ended.bad or pr.ended.rc != 0 or pr.steps is None or len(pr.steps) != len(lines):
                    raise kal.Failure(pr.ended, "object history " + how)
                st_ = pr.steps
                read_failed = any(x.get("rc") != 0 for x, ln in zip(st_, lines) if ln.startswith("read "))
                if read_failed or st_[-3]["rc"] != 0 or st_[-2].get("msa") is None:
                    k1, k2 = gen.expected_kind([x for x in seqs[:cut] if x]), gen.expected_kind([x for x in seqs[cut:] if x])
                    if how in ("twofiles", "append") and (k1 is None or k2 is None or k1 != k2):
                        # each file is classified on its own and kalign refuses to merge files it takes for different kinds:
                        # only parts that each satisfy the same C13 premise are certain to be accepted
                        return engine.discard("the two parts are not of one kind on their own (kalign refuses to merge them)")
                    return engine.violation({"what": "the final run of the history '%s' failed on a valid input" % how,
                                             "rcs": [x.get("rc") for x in st_]}, kind="status")
                m = st_[-2]["msa"]
                out_names, rows = kal.msa_rows(m)
                alnlen = m["alnlen"]
            elif entry == "dump" or entry.startswith("write:"):
                fmt = entry.split(":")[1] if ":" in entry else None
                r = kal.run_files([fp], cfg, write=[fmt] if fmt else None)
                if r["read_rcs"] != [0] or r["run_rc"] != 0:
                    return engine.violation({"what": "read/run failed on a valid input", "read": r["read_rcs"],
                                             "run": r["run_rc"]}, kind="status")
                m = r["msa"]
                out_names, rows = kal.msa_rows(m)
                alnlen = m["alnlen"]
                if fmt:
                    if r["write_rcs"][fmt] != 0 or r["written"][fmt] is None:
                        return engine.violation({"what": "write failed", "fmt": fmt}, kind="status")
                    try:
                        fn, fr = formats.parse_any(fmt, r["written"][fmt])
                    except formats.FormatError as e:
                        return engine.violation({"what": "written %s file does not parse" % fmt, "error": str(e)})
                    bad = oracle.integrity(in_names if fmt == "fasta" else [x[:255] for x in in_names], in_seqs,
                                           fn if fmt == "fasta" else [x[:255] for x in fn], fr)
                    if bad:
                        return engine.violation({"what": "written %s file: %s" % (fmt, bad)})
            else:
                how, fmt = entry.split(":")
                en, text = kal.run_cli_files([fp], cfg, fmt=fmt, to_stdout=(how == "stdout"))
                if en.rc != 0 or text is None:
                    return engine.violation({"what": "CLI failed on a valid input", "rc": en.rc,
                                             "stderr": en.err[-400:]}, kind="status")
                if how == "stdout":
                    text = _strip_log(text)
                try:
                    out_names, rows = formats.parse_any(fmt, text)
                except formats.FormatError as e:
                    return engine.violation({"what": "CLI %s output does not parse" % fmt, "error": str(e)})
                if fmt != "fasta":
                    out_names = [x[:255] for x in out_names]
                    in_names = [x[:255] for x in in_names]
                alnlen = None
    except kal.Failure as f:
        if f.ended.kind == "hang":
            return engine.discard("cpu-limit (inconclusive; hangs are judged by C05)")
        return engine.violation({"what": "process failure", **f.detail()}, kind="crash")
    bad = oracle.integrity(in_names, in_seqs, out_names, rows, alnlen)
    cl = classes_of(case, rows)
    if bad:
        return engine.violation({"what": bad, "entry": entry}, classes=cl)
    nontrivial = len(set(in_seqs)) >= 2 and oracle.has_gap(rows)
    sample = {"entry": entry, "cfg": cfg, "n": len(in_seqs), "names": in_names[:3], "seqs": [s[:50] for s in in_seqs[:3]],
              "rows": [r[:60] for r in rows[:3]]}
    return engine.ok(nontrivial, cl, sample)


# ------------------------------------------------------------------ enumerated size sweeps

def extra(tier, seed, stats):
    from concurrent.futures import ThreadPoolExecutor
    from vlib import sweeps
    quick = tier == "quick"
    cases_ = []
    for n in sweeps.count_sweep(quick):
        for kind in ("dna", "protein"):
            seqs = sweeps.family(n, 12 + n % 7, kind, salt=seed)
            cases_.append({"names": ["s%d" % i for i in range(n)], "seqs": seqs, "cfg": {"type": 5, "threads": 1 + n % 4, "gpo": -1.0, "gpe": -1.0, "tgpe": -1.0},
                           "entry": ["arr", "dump", "write:msf", "cli:clu"][n % 4], "kind": kind, "shape": "sweep_n", "final_newline": True})
    for L in sweeps.length_sweep(quick):
        kind = "dna" if L % 2 else "protein"
        seqs = sweeps.family(2 + L % 3, L, kind, salt=seed)
        cases_.append({"names": ["s%d" % i for i in range(len(seqs))], "seqs": seqs, "cfg": {"type": 5, "threads": 1 + L % 4, "gpo": -1.0, "gpe": -1.0, "tgpe": -1.0},
                       "entry": ["arr", "dump", "write:fasta", "cli:msf"][L % 4], "kind": kind, "shape": "sweep_len", "final_newline": True})
    with ThreadPoolExecutor(max_workers=12) as ex:
        res = list(ex.map(check, cases_))
    out = []
    for c, r in zip(cases_, res):
        stats.record(c, r)
        if r["status"] == "violation":
            out.append({"case": c, "detail": r["detail"], "kind": r.get("kind")})
    stats.extra["sweep"] = "every sequence count %s and every sequence length %s (enumerated)" % (
        "2..140, 250..261" if quick else "2..261, 500..519", "1..140, 250..261, 490..519, 1018..1029" if quick else "1..699, 1018..1029, 2040..2055")
    return out
