"""C14 Letter case and RNA/DNA spelling do not influence the alignment."""
import random

from hypothesis import strategies as st

from vlib import engine, gen, kal, oracle

ID = "C14"
RULE = ("Input A (nucleotide over ACGTUN or protein over 20 aa + BZX, generated families / unrelated / degenerate sets, any case) and "
        "A' = A with a generated mask: each residue's case flipped with drawn probability and, for nucleotides, T<->U swapped "
        "with drawn probability (plus 'all lower', 'all upper', 'all T->U' and class-wise masks: one class of letters lower, the rest upper, and vice versa); same type/penalties/threads; array and file "
        "API, the latter with distinct, all-equal or pooled record names and the records in one file, split over 2..3 files, or presented as an aligned FASTA / MSF / Clustal file. Oracle: the gap pattern of every row is identical in both runs and the letters of A' rows are A' letters. "
        "Non-trivial = mask changes >= 1 residue and the result has gaps; distinct by hash of the case.")
ASSUMPTIONS = ["pairs whose detected kind differs between A and A' are discarded and counted only when the residues satisfy neither premise of C13 (there the kind is not defined); otherwise the rows are compared as usual"]
BUDGET = {"quick": dict(examples=500, workers=12, seconds=75), "thorough": dict(examples=1200, workers=16, seconds=600)}


def apply_mask(seqs, kind, mode, pcase, ptu, seed):
    rnd = random.Random(seed)
    out = []
    for s in seqs:
        r = []
        for c in s:
            if kind == "dna" and ptu > 0 and c.upper() in "TU" and (mode == "alltu" or rnd.random() < ptu):
                nc = {"T": "U", "U": "T", "t": "u", "u": "t"}[c]
                c = nc
            if mode == "classlower" or mode == "classupper":
                # one class of letters in one case, all the others in the other case (nucleotide: ACGTU vs the rest;
                # protein: the letters that occur only in proteins vs the rest)
                incls = (c.upper() in "ACGTU") if kind == "dna" else (c.upper() in gen.PROT_ONLY)
                c = c.lower() if incls == (mode == "classlower") else c.upper()
            elif mode == "lower":
                c = c.lower()
            elif mode == "upper":
                c = c.upper()
            elif pcase > 0 and rnd.random() < pcase:
                c = c.swapcase()
            r.append(c)
        out.append("".join(r))
    return out


@st.composite
def cases(draw, tier):
    big = tier == "thorough"
    ss = draw(gen.seqsets(max_n=40 if not big else 120, max_len=300 if not big else 900))
    if ss["kind"] is None:
        ss = dict(ss, kind="protein" if any(c.upper() in gen.PROT_ONLY for s in ss["seqs"] for c in s) else "dna")
    mode = draw(st.sampled_from(["random", "random", "random", "lower", "upper", "alltu", "classlower", "classupper"]))
    cfg = {"type": draw(gen.types_for(ss["kind"])), "threads": draw(gen.threads)}
    cfg["gpo"], cfg["gpe"], cfg["tgpe"] = draw(gen.penalties())
    return {"seqs": ss["seqs"], "kind": ss["kind"], "mode": mode,
            "pcase": draw(st.sampled_from([0.0, 0.05, 0.5, 1.0])), "ptu": draw(st.sampled_from([0.0, 0.1, 0.5, 1.0])),
            "mask_seed": draw(st.integers(0, 2 ** 32 - 1)), "cfg": cfg, "entry": draw(st.sampled_from(["arr", "file"])),
            # the property does not ask for distinct names: records may share a name (all equal / a pool of two)
            "name_mode": draw(st.sampled_from(["distinct", "distinct", "all_equal", "pool2"])),
            # file API: the records in one file or split over 2..3 files (unequal parts) read into one object
            "nfiles": draw(st.sampled_from([1, 1, 2, 3])), "split_seed": draw(st.integers(0, 2 ** 16)),
            # the records may also come as an aligned FASTA / MSF / Clustal presentation (their gaps are irrelevant, C04)
            "infmt": draw(st.sampled_from(["fasta", "fasta", "fasta", "afa", "msf", "clu"])), "inseed": draw(st.integers(0, 999))}


def strategy(tier):
    return cases(tier)


def check(case):
    a = case["seqs"]
    kind = gen.expected_kind(a)
    b = apply_mask(a, case["kind"], case["mode"], case["pcase"], case["ptu"], case["mask_seed"])
    cfg = case["cfg"]
    cl = ["entry=" + case["entry"], "kind=%s" % kind, "mode=" + case["mode"]]
    if len(a) < 2:
        return engine.discard("fewer than two sequences")
    class OneSided(Exception):
        pass

    def both(f):
        """run A and A'; a spelling that is accepted while the other one is rejected is a difference in the output"""
        res, errs = [], []
        for x in (a, b):
            try:
                res.append(f(x))
                errs.append(None)
            except kal.Rejected as e:
                res.append(None)
                errs.append(e)
        if errs[0] is None and errs[1] is None:
            return res
        if errs[0] is not None and errs[1] is not None:
            raise errs[0]
        raise OneSided("A is %s, A' is %s (%s)" % ("rejected" if errs[0] else "aligned", "rejected" if errs[1] else "aligned", (errs[0] or errs[1]).what))

    try:
        if case["entry"] == "arr":
            ka, kb = kal.biotype_of(a), kal.biotype_of(b)
            if ka != kb and kind is None:
                return engine.discard("detected kind differs between spellings of residues that satisfy neither C13 premise")
            ra, rb = both(lambda x: kal.align_arr(x, cfg))
        else:
            nm = case.get("name_mode", "distinct")
            names = ["s%d" % i for i in range(len(a))] if nm == "distinct" else (["seq"] * len(a) if nm == "all_equal"
                                                                                  else ["seq%d" % (i % 2) for i in range(len(a))])
            cl.append("names=" + nm)
            cuts = list(case["cuts"]) if case.get("cuts") else kal.split_points(len(a), case.get("nfiles", 1), case.get("split_seed", 0))
            bounds = [0] + cuts + [len(a)]
            if cuts and (kind is None or any(gen.expected_kind(a[p:q]) != kind for p, q in zip(bounds, bounds[1:]))):
                cuts = []      # kalign refuses to merge files it takes for different kinds: only parts that each carry the kind
            if cuts:
                cl.append("files=%d" % (len(cuts) + 1))
                ra, rb = both(lambda x: kal.align_named_files(names, x, cfg, cuts))
            elif case.get("infmt", "fasta") != "fasta" and nm == "distinct" and all(a):
                from vlib import present
                cl.append("input=" + case["infmt"])

                def via_fmt(x):
                    ch = {"fmt": "fasta" if case["infmt"] == "afa" else case["infmt"], "gapmode": "aligned", "gapfrac": 0.2, "seed": case.get("inseed", 0),
                          "width": 60, "kindletter": "P" if kind == "protein" else "N"}
                    fp = kal.runner.workdir().write(present.render_chunk(names, x, ch).encode("latin-1"), ".in")
                    r = kal.run_files([fp], cfg)
                    if r["read_rcs"] != [0] or r["run_rc"] != 0 or r["msa"] is None:
                        raise kal.Rejected("read/run failed", {"read": r["read_rcs"], "run": r["run_rc"]})
                    n_, rows_ = kal.msa_rows(r["msa"])
                    return {"names": n_, "rows": rows_, "biotype": r["msa"]["biotype"]}
                ra, rb = both(via_fmt)
            else:
                ra, rb = both(lambda x: kal.align_named(names, x, cfg))
            if ra["biotype"] != rb["biotype"] and kind is None:
                return engine.discard("detected kind differs between spellings of residues that satisfy neither C13 premise")
    except kal.Failure as f:
        if f.ended.kind == "hang":
            return engine.discard("cpu-limit (inconclusive; hangs are judged by C05)")
        return engine.violation({"what": "process failure", **f.detail()}, kind="crash")
    except kal.Rejected as e:
        return engine.discard("rejected: " + e.what)
    except OneSided as e:
        if kind is None:
            return engine.discard("one spelling rejected, residues satisfy neither C13 premise")
        return engine.violation({"what": "the two spellings are not treated alike: %s" % e, "A": [x[:60] for x in a[:3]], "A'": [x[:60] for x in b[:3]], "cfg": cfg}, classes=cl)
    changed = sum(1 for x, y in zip(a, b) for p, q in zip(x, y) if p != q)
    if changed:
        cl.append("mask_nonempty")
    if any(x.upper() != y.upper() for x, y in zip(a, b)):
        cl.append("tu_swapped")
    for i, (x, y) in enumerate(zip(ra["rows"], rb["rows"])):
        if oracle.gap_pattern(x) != oracle.gap_pattern(y):
            return engine.violation({"what": "gap pattern of row %d differs between the two spellings" % i,
                                     "A": x[:150], "A'": y[:150], "cfg": cfg, "changed": changed}, classes=cl)
        if y.replace("-", "") != b[i]:
            return engine.violation({"what": "row %d of A' does not carry A' letters" % i, "row": y[:150], "input": b[i][:150]}, classes=cl)
    nt = changed > 0 and oracle.has_gap(ra["rows"])
    return engine.ok(nt, cl, {"A": [s[:40] for s in a[:3]], "A'": [s[:40] for s in b[:3]], "cfg": cfg, "changed": changed,
                              "rows": [r[:50] for r in ra["rows"][:3]]})


# ------------------------------------------------------------------ enumerated: class-wise case x several files

def extra(tier, seed, stats):
    """For every letter x that occurs only in proteins: a family over {x, A, C, G, T} with about 30 % x, the first (short)
    record in one file and the others in a second file; A all upper case, A' with x lower / the rest upper and vice versa."""
    from concurrent.futures import ThreadPoolExecutor
    out = []
    cases_ = []
    for i, x in enumerate(sorted(gen.PROT_ONLY)):
        rnd = random.Random(seed * 131 + i)
        alpha = x * 3 + "ACGT" + "ACG"[i % 3]
        fam = gen.expand_family(rnd.randrange(2 ** 32), alpha, 6, 70, 0.15, 0.06, 0.0)
        first = (x + fam[0][:9])[:10]
        seqs = [first] + fam
        if gen.expected_kind(seqs) != "protein" or gen.expected_kind([first]) != "protein" or gen.expected_kind(fam) != "protein":
            continue
        for mode in ("classlower", "classupper", "lower"):
            cases_.append({"seqs": seqs, "kind": "protein", "mode": mode, "pcase": 0.0, "ptu": 0.0, "mask_seed": 0,
                           "cfg": {"type": 5, "threads": 1, "gpo": -1.0, "gpe": -1.0, "tgpe": -1.0}, "entry": "file", "name_mode": "distinct",
                           "nfiles": 2, "cuts": [1]})
    # residue text that spells a word a format sniffer may look for: every word, upper case in A, lower / mixed in A'
    for i, w in enumerate(gen.FORMAT_WORDS):
        seqs = gen.word_family(w, seed * 17 + i)
        if gen.expected_kind(seqs) != "protein":
            continue
        for mode, pc in (("lower", 0.0), ("random", 0.5)):
            cases_.append({"seqs": seqs, "kind": "protein", "mode": mode, "pcase": pc, "ptu": 0.0, "mask_seed": i,
                           "cfg": {"type": 5, "threads": 1, "gpo": -1.0, "gpe": -1.0, "tgpe": -1.0}, "entry": "file", "name_mode": "distinct",
                           "nfiles": 1})
    # >= 100 sequences (k-means guide tree with anchor sequences) in which one sequence, the longest, occurs 5..12 times in a
    # row of the length order; A' respells a few residues (case, T/U): whatever compares sequences must compare them as
    # residues, not as written
    nm = 20 if tier == "quick" else 60
    for i in range(nm):
        rnd = random.Random(seed * 977 + i)
        kind = "dna" if (i // 2) % 2 else "protein"
        alpha = gen.NUC if kind == "dna" else gen.AA
        if i % 2:
            n = rnd.randint(100, 170)
            fam = gen.expand_family(rnd.randrange(2 ** 32), alpha, n, rnd.randint(25, 50), 0.2, 0.06, 0.2)
            longest = max(fam, key=len) + "".join(rnd.choice(alpha) for _ in range(4))
            seqs = fam + [longest] * rnd.randint(5, 12)
        else:
            # every sequence several times
            fam = gen.expand_family(rnd.randrange(2 ** 32), alpha, rnd.randint(22, 36), rnd.randint(25, 50), 0.2, 0.06, 0.2)
            seqs = [x for x in fam for _ in range(rnd.randint(4, 6))]
        rnd.shuffle(seqs)
        cases_.append({"seqs": seqs, "kind": kind, "mode": "random", "pcase": [0.002, 0.01, 0.05][i % 3], "ptu": [0.0, 0.01][i % 2] if kind == "dna" else 0.0,
                       "mask_seed": i, "cfg": {"type": 5, "threads": 1 + i % 4, "gpo": -1.0, "gpe": -1.0, "tgpe": -1.0},
                       "entry": "file" if i % 3 else "arr", "name_mode": "distinct", "nfiles": 1})
    with ThreadPoolExecutor(max_workers=12) as ex:
        res = list(ex.map(check, cases_))
    for c, r in zip(cases_, res):
        stats.record(c, r)
        if r["status"] == "violation":
            out.append({"case": c, "detail": r["detail"], "kind": r.get("kind")})
    return out
