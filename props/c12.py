"""C12 Duplicate input sequences receive identical rows."""
import random

from hypothesis import strategies as st

from vlib import engine, gen, kal, oracle

ID = "C12"
RULE = ("Inputs of 2..99 sequences (related family or unrelated) in which one or more members are repeated (multiplicity 2..6, "
        "copies inserted at drawn positions; plus a boundary class: a 540..700-residue sequence, duplicated, with two shorter sequences constructed to lie at reduced-alphabet semi-global distance exactly 255/256/257 from it; and a near-fragment class: a random sequence of 40..9000 residues (12000..30000, thorough ..45000, enumerated in extra()), 2..3 copies, plus 1..3 fragments of it whose windows overlap one position and which carry 1..2 edits each at neighbouring or at random positions), all types and thread counts (type default penalties: the property does not quantify over user penalties), array and file API. Premise checked per case by an "
        "independent Sellers semi-global edit distance in python: for each duplicated sequence d and every other distinct "
        "sequence t, distance(longer as text, shorter as pattern) >= 1 on the case-folded full alphabet and on the reduced "
        "alphabet used for guide-tree distances (nucleotide: U=T, IUPAC codes=N; protein: the 13 published classes LM, IV, KR, "
        "EQZ, AST, NDB, FY, C, G, H, P, W, X); cases failing it are discarded and counted. Oracle: all copies of a sequence have "
        "byte-identical rows. Non-trivial = >= 3 distinct sequences and the copies' rows contain a gap.")
ASSUMPTIONS = ["premise evaluated on the first 1024 symbols of the pattern, as the distance kernel does"]
BUDGET = {"quick": dict(examples=220, workers=14, seconds=90), "thorough": dict(examples=1200, workers=16, seconds=600)}

_PROT_CLASS = {}
for grp in ["LM", "IV", "KR", "EQZ", "AST", "NDB", "FY", "C", "G", "H", "P", "W"]:
    for ch in grp:
        _PROT_CLASS[ch] = grp[0]


def reduce_protein(s):
    return "".join(_PROT_CLASS.get(c, "X") for c in s.upper())


def reduce_dna(s):
    return "".join(c if c in "ACGT" else ("T" if c == "U" else "N") for c in s.upper())


def contained(a, b, red):
    """True when the shorter of a,b matches a substring of the longer exactly (distance 0) under `red`."""
    from vlib import dporacle
    x, y = red(a), red(b)
    if len(x) < len(y):
        x, y = y, x
    return dporacle.sellers(x, y[:1024]) == 0


@st.composite
def cases(draw, tier):
    k, alpha = draw(gen.alphabets())
    shape = draw(st.sampled_from(["family", "family", "unrelated", "boundary", "nearfrag"]))
    maxn = 30 if tier == "quick" else 90
    if shape == "boundary":
        # guide-tree distances at the edges of small integer types: two shorter sequences whose semi-global distance to the
        # duplicated sequence is exactly 255 / 256 / 257 (built in check() from these parameters by a pure function)
        return {"boundary": {"seed": draw(st.integers(0, 2 ** 32 - 1)), "kind": k, "targets": draw(st.sampled_from([[256, 256], [256, 256], [255, 256], [256, 257], [255, 255], [257, 257], [255, 257]])),
                             "la": draw(st.integers(540, 700)), "extra": draw(st.integers(0, 3))},
                "seqs": None, "cfg": {"type": draw(gen.types_for(k)), "threads": draw(gen.threads), "gpo": -1.0, "gpe": -1.0, "tgpe": -1.0},
                "entry": draw(st.sampled_from(["arr", "file"])), "shape": shape}
    if shape == "nearfrag":
        # a duplicated sequence of any length up to 30000 and short fragments of it that are one or two edits away from being
        # contained: the guide tree must still put the copies together (distance 0 against distance 1 plus whatever else
        # enters the distance)
        return {"nearfrag": {"seed": draw(st.integers(0, 2 ** 32 - 1)), "kind": k,
                             "la": draw(st.sampled_from([40, 80, 150, 400, 1100, 3000, 9000])),
                             "copies": draw(st.sampled_from([2, 2, 3])), "nfrag": draw(st.integers(1, 3)),
                             "edits": draw(st.sampled_from([1, 1, 2])), "fl": draw(st.integers(12, 40)),
                             "near": draw(st.booleans())},
                "seqs": None, "cfg": {"type": draw(gen.types_for(k)), "threads": draw(gen.threads), "gpo": -1.0, "gpe": -1.0, "tgpe": -1.0},
                "entry": draw(st.sampled_from(["arr", "file"])), "shape": shape}
    if draw(st.integers(0, 9)) == 0:
        # long sequences: beyond the serial/parallel Hirschberg switch (500) and the distance kernel's 1024-symbol cap
        L = draw(st.sampled_from([499, 500, 501, 640, 1023, 1024, 1025, 1100]))
        base = gen.expand_family(draw(st.integers(0, 2 ** 32 - 1)), alpha, draw(st.integers(2, 4)), L, 0.15, 0.02, 0.0)
        shape = "long"
    elif shape == "family":
        n = draw(st.integers(1, maxn))
        L = draw(st.integers(4, 120))
        base = gen.expand_family(draw(st.integers(0, 2 ** 32 - 1)), alpha, n, L, draw(st.sampled_from([0.05, 0.15, 0.4])),
                                 draw(st.sampled_from([0.0, 0.02, 0.06])), draw(st.sampled_from([0.0, 0.3])))
    else:
        n = draw(st.integers(1, maxn))
        base = gen.expand_random(draw(st.integers(0, 2 ** 32 - 1)), alpha, n, 3, 120)
    seqs = list(base)
    ndup = draw(st.integers(1, 3))
    for _ in range(ndup):
        src = draw(st.integers(0, len(base) - 1))
        for _m in range(draw(st.integers(1, 5))):
            if len(seqs) >= 99:
                break
            seqs.insert(draw(st.integers(0, len(seqs))), base[src])
    if draw(st.integers(0, 4)) == 0:
        seqs = [s.lower() for s in seqs]
    kind = gen.expected_kind(seqs)
    cfg = {"type": draw(gen.types_for(kind)), "threads": draw(gen.threads)}
    cfg["gpo"], cfg["gpe"], cfg["tgpe"] = -1.0, -1.0, -1.0
    return {"seqs": seqs[:99], "cfg": cfg, "entry": draw(st.sampled_from(["arr", "file"])), "shape": shape}


def strategy(tier):
    return cases(tier)


def build_boundary(b):
    """A (duplicated) + two shorter sequences at exact reduced-alphabet Sellers distance b['targets'] + ordinary relatives."""
    from vlib import dporacle
    rnd = random.Random(b["seed"])
    alpha = gen.NUC if b["kind"] == "dna" else gen.AA
    red = reduce_dna if b["kind"] == "dna" else reduce_protein
    A = "".join(rnd.choice(alpha) for _ in range(b["la"]))
    out = []
    for tgt in b["targets"]:
        L = rnd.randint(tgt + 120, min(b["la"] - 20, tgt + 230))
        off = rnd.randint(0, b["la"] - L)
        c = list(A[off:off + L])
        d = 0
        # edits one at a time (substitutions, and - so that aligning the neighbour needs gaps - insertions and deletions),
        # each accepted only if the independent semi-global distance does not overshoot the target
        for _attempt in range(6 * tgt):
            if d >= tgt:
                break
            pos = rnd.randrange(len(c))
            r = rnd.random()
            old = list(c)
            if r < 0.7 or not b.get("indels", True):
                c[pos] = rnd.choice([x for x in alpha if red(x) != red(c[pos])])
            elif r < 0.85:
                c.insert(pos, rnd.choice(alpha))
            elif len(c) > tgt + 60:
                del c[pos]
            nd = dporacle.sellers(red(A), red("".join(c)))
            if nd > tgt or nd < d:
                c = old
            else:
                d = nd
        if d != tgt:
            return None
        out.append("".join(c))
    rel = gen.expand_family(rnd.randrange(2 ** 32), alpha, b["extra"], b["la"] // 2, 0.2, 0.03, 0.2) if b["extra"] else []
    seqs = [A, out[0], A, out[1]] + rel
    return seqs


def build_nearfrag(b):
    """A (copies) + fragments of A whose windows overlap one position p of A; each fragment carries its edits (an inserted or
    substituted residue) at p, p+1 or p+2 ('near': the copies meet competing gaps at neighbouring columns) or anywhere in
    its window"""
    rnd = random.Random(b["seed"])
    alpha = gen.NUC if b["kind"] == "dna" else gen.AA
    A = "".join(rnd.choice(alpha) for _ in range(b["la"]))
    p = rnd.randint(0, b["la"] - 1)
    letter = rnd.choice(alpha)
    frags = []
    for i in range(b["nfrag"]):
        lo = max(0, p - rnd.randint(6, max(6, b["fl"] * 2)))
        hi = min(b["la"], p + 1 + rnd.randint(6, max(6, b["fl"] * 2)))
        f = list(A[lo:hi])
        for _ in range(b["edits"]):
            pos = min(len(f), max(0, (p - lo) + rnd.choice([0, 1, 1, 2]))) if b["near"] else rnd.randint(0, len(f))
            x = letter if rnd.random() < 0.6 else rnd.choice(alpha)
            if rnd.random() < 0.7 or pos >= len(f):
                f.insert(pos, x)
            else:
                f[pos] = rnd.choice([y for y in alpha if y != f[pos]])
        frags.append("".join(f))
    seqs = [A]
    for f in frags:
        seqs.append(f)
        if len([x for x in seqs if x == A]) < b["copies"]:
            seqs.append(A)
    while len([x for x in seqs if x == A]) < b["copies"]:
        seqs.append(A)
    return seqs


def check(case):
    if case.get("nearfrag"):
        case = dict(case, seqs=build_nearfrag(case["nearfrag"]))
    if case.get("boundary"):
        built = build_boundary(case["boundary"])
        if built is None:
            return engine.discard("boundary construction did not reach the target distance")
        case = dict(case, seqs=built)
    seqs, cfg = case["seqs"], case["cfg"]
    if not (2 <= len(seqs) <= 99):
        return engine.discard("size outside 2..99")
    groups = {}
    for i, s in enumerate(seqs):
        groups.setdefault(s, []).append(i)
    dups = {s: ix for s, ix in groups.items() if len(ix) > 1}
    if not dups:
        return engine.discard("no duplicates")
    cl = ["entry=" + case["entry"], "shape=" + case["shape"]]
    try:
        bt = kal.biotype_of(seqs)
    except (kal.Failure, kal.Rejected) as e:
        return engine.violation({"what": "kind detection failed: %s" % e}, kind="crash")
    red = reduce_dna if bt == 1 else reduce_protein
    full = (lambda s: s.upper())
    distinct = list(groups)
    for d in dups:
        for t in distinct:
            if t == d:
                continue
            if contained(d, t, full) or contained(d, t, red):
                return engine.discard("containment premise fails")
    variant = "plain" if max(len(x) for x in seqs) > 5000 else "asan"
    if variant == "plain":
        cl.append("len>5000")
    try:
        if case["entry"] == "arr":
            rows = kal.align_arr(seqs, cfg, variant=variant)["rows"]
        else:
            rows = kal.align_named(kal.auto_headers(["s%d" % i for i in range(len(seqs))], seqs), seqs, cfg, variant=variant)["rows"]
    except kal.Failure as f:
        if f.ended.kind == "hang":
            return engine.discard("cpu-limit (inconclusive; hangs are judged by C05)")
        return engine.violation({"what": "process failure", **f.detail()}, kind="crash")
    except kal.Rejected as e:
        return engine.violation({"what": "valid input rejected: " + e.what, "info": e.info}, kind="status")
    gapped = False
    for d, ix in dups.items():
        r0 = rows[ix[0]]
        gapped = gapped or "-" in r0
        for j in ix[1:]:
            if rows[j] != r0:
                return engine.violation({"what": "copies %d and %d of one sequence have different rows" % (ix[0], j),
                                         "row_a": r0[:200], "row_b": rows[j][:200], "seq": d[:80], "n": len(seqs), "cfg": cfg,
                                         "biotype": bt}, classes=cl)
    if len(ix) > 2:
        cl.append("multiplicity>2")
    nt = len(distinct) >= 3 and gapped
    return engine.ok(nt, cl, {"n": len(seqs), "distinct": len(distinct), "dup": [d[:40] for d in list(dups)[:2]],
                              "cfg": cfg, "entry": case["entry"]})


# ------------------------------------------------------------------ class-confusion inputs (adaptive, enumerated)

PUBLISHED = ["LM", "IV", "KR", "EQZ", "AST", "NDB", "FY", "C", "G", "H", "P", "W"]


def confusion_pairs():
    """letters that kalign's guide-tree alphabets put into one class although the published tables separate them
    (or that are unmapped there): read from the real tables through the probe"""
    from vlib import runner
    pr = runner.run_probe(["alphabet 13", "alphabet 5"])
    if pr.ended.bad or not pr.steps or len(pr.steps) != 2 or pr.steps[0].get("rc") != 0 or pr.steps[1].get("rc") != 0:
        return None
    out = []
    red = pr.steps[0]["to_internal"]
    pub = {}
    for g in PUBLISHED:
        for ch in g:
            pub[ch] = g[0]
    letters = "ABCDEFGHIJKLMNOPQRSTUVWXYZ"
    for i, p in enumerate(letters):
        for q in letters[i + 1:]:
            cp, cq = red[ord(p)], red[ord(q)]
            if cp >= 0 and cp == cq and pub.get(p, "X" if p == "X" else "?" + p) != pub.get(q, "X" if q == "X" else "?" + q):
                out.append(("protein", p, q))
    dna = pr.steps[1]["to_internal"]
    dpub = {"A": "A", "C": "C", "G": "G", "T": "T", "U": "T"}
    for i, p in enumerate(letters):
        for q in letters[i + 1:]:
            cp, cq = dna[ord(p)], dna[ord(q)]
            if cp >= 0 and cp == cq and dpub.get(p, "N") != dpub.get(q, "N"):
                out.append(("dna", p, q))
    return out


def confusion_input(kind, p, q):
    """a duplicated sequence rich in p, and two short fragments spelled with q that are contained in it only if p and q
    count as equal (template after seeded change C12-d)"""
    if kind == "protein":
        w = "WHKGMPE"
        st1 = p + "W" + p + "H" + p + "KP" + p + "G" + p + "M" + p
        st2 = p + "W" + p + "H" + p + "PE" + p + "G" + p + "M" + p
        st3 = q + "W" + q + "H" + q + "P" + q + "G" + q + "M" + q
        x = "MKTAYIAKQR" + st1 + "GSLNDIFEAQ" + st2 + "VTHLRDNGYS" + st3 + "QIEVNAFKDL"
        z1 = st1.replace(p, q)
        z2 = st2.replace(p, q)
    else:
        st1 = p + "A" + p + "C" + p + "GT" + p + "A" + p + "G" + p
        st2 = p + "A" + p + "C" + p + "TG" + p + "A" + p + "G" + p
        st3 = q + "A" + q + "C" + q + "T" + q + "A" + q + "G" + q
        x = "ACGTTGCAAC" + st1 + "GGATCCTTAG" + st2 + "CTAGGATCCA" + st3 + "TTGACCAGTA"
        z1 = st1.replace(p, q)
        z2 = st2.replace(p, q)
    return [x, z1, x, z2]


def extra(tier, seed, stats):
    out = []
    pairs = confusion_pairs()
    if pairs is None:
        return [{"case": {"seqs": ["A", "A"], "cfg": {"type": 5, "threads": 1, "gpo": -1.0, "gpe": -1.0, "tgpe": -1.0}, "entry": "arr", "shape": "alphabet"},
                 "detail": {"what": "could not read the alphabet tables through the probe"}, "kind": "harness"}]
    stats.extra["class_confusions_found_in_the_tables"] = ["%s:%s=%s" % x for x in pairs]
    for kind, p, q in pairs:
        for a, b in ((p, q), (q, p)):
            for t in (gen.PROT_TYPES if kind == "protein" else gen.DNA_TYPES):
                case = {"seqs": confusion_input(kind, a, b), "cfg": {"type": t, "threads": 1, "gpo": -1.0, "gpe": -1.0, "tgpe": -1.0},
                        "entry": "file", "shape": "class_confusion"}
                r = check(case)
                stats.record(case, r)
                if r["status"] == "violation":
                    out.append({"case": case, "detail": r["detail"], "kind": r.get("kind")})
    # very long duplicated sequences with competing near-fragments (anything in the guide-tree distance that grows with
    # the length shows only here), enumerated over lengths and construction seeds
    from concurrent.futures import ThreadPoolExecutor
    lens = [12000, 21000, 24000, 30000] if tier == "quick" else [9000, 12000, 16000, 21000, 24000, 30000, 45000]
    per = 10 if tier == "quick" else 40
    cases_ = []
    for la in lens:
        for i in range(per):
            cases_.append({"nearfrag": {"seed": seed * 1000 + la + i, "kind": "dna" if i % 2 else "protein", "la": la, "copies": 2 + (i % 5 == 4),
                                        "nfrag": 2 + i % 2, "edits": 1, "fl": 20 + i, "near": True}, "seqs": None,
                           "cfg": {"type": 5, "threads": 1 + i % 4, "gpo": -1.0, "gpe": -1.0, "tgpe": -1.0}, "entry": "file" if i % 3 else "arr",
                           "shape": "nearfrag_long"})
    with ThreadPoolExecutor(max_workers=12) as ex:
        res = list(ex.map(check, cases_))
    for c, r in zip(cases_, res):
        stats.record(c, r)
        if r["status"] == "violation":
            out.append({"case": c, "detail": r["detail"], "kind": r.get("kind")})
    return out
