"""C08 Identical sequences are aligned without gaps."""
import random

from hypothesis import strategies as st

from vlib import engine, gen, kal

ID = "C08"
RULE = ("One generated string (nucleotide ACGTU / +N / full IUPAC / all-N, protein 20 aa / +BZX / all-X, homopolymers, "
        "either case; length 1..800 quick, 1..5000 thorough; short strings drawn letter by letter) x 2..500 copies x a type "
        "admissible for the kind kalign itself reports for the string x threads 1..16 x entry point (kalign() / file API / file API + the three written files parsed back; the file in a drawn layout: wrapped at 1/7/60/80 or not, LF or CRLF, with or without a final line terminator, 0/1/6 leading blank lines, optionally one header line of 127..70000 characters). "
        "Oracle: every row equals the string and the length is unchanged. Non-trivial = copies>=3 or length>=2; distinct "
        "by hash of the case.")
ASSUMPTIONS = ["gap penalties are the type's defaults: the property quantifies over alignment types, not over user penalties (with gap open 0, X:X scoring <= 0 makes the gap-free alignment non-optimal)",
               "the kind used to pick admissible types is the one kalign reports for the string (C13 owns detection)"]
BUDGET = {"quick": dict(examples=130, workers=12, seconds=70), "thorough": dict(examples=900, workers=16, seconds=600)}

ALPHAS = [gen.NUC, gen.NUC_U, gen.NUC_N, gen.IUPAC, "N", gen.AA, gen.AA_X, "X", "BZX", "ACGTN"]


@st.composite
def cases(draw, tier):
    alpha = draw(st.sampled_from(ALPHAS))
    maxlen = 800 if tier == "quick" else 5000
    mode = draw(st.sampled_from(["text", "text", "homo", "long"]))
    if mode == "text":
        s = draw(st.text(alphabet=alpha, min_size=1, max_size=60))
    elif mode == "homo":
        s = draw(st.sampled_from(alpha)) * draw(st.integers(1, maxlen))
    else:
        n = draw(st.integers(1, maxlen))
        seed = draw(st.integers(0, 2 ** 32 - 1))
        rnd = random.Random(seed)
        s = "".join(rnd.choice(alpha) for _ in range(n))
    case_mode = draw(st.sampled_from(["upper", "upper", "lower"]))
    if case_mode == "lower":
        s = s.lower()
    copies = draw(st.one_of(st.integers(2, 12), st.integers(2, 12), st.integers(90, 130), st.integers(2, 500)))
    if len(s) * copies > (250000 if tier == "quick" else 1500000):
        copies = max(2, (250000 if tier == "quick" else 1500000) // len(s))
    return {"s": s, "copies": copies, "type_pick": draw(st.integers(0, 3)), "threads": draw(gen.threads),
"entry": draw(st.sampled_from(["arr", "file", "written"])),
            "layout": draw(gen.layouts),
            # file entry: one record may carry a very long header line (database-style descriptions; the line buffers of a
            # reader are 128 / 256 / 4096 / 65536 bytes in many programs)
            "header": draw(st.sampled_from([None] * 6 + [[0, 127], [1, 4095], [1, 4096], [0, 4118], [1, 8193], [0, 65536], [1, 70000]]))}


def strategy(tier):
    return cases(tier)


def check(case):
    s, k = case["s"], case["copies"]
    seqs = [s] * k
    try:
        bt = kal.biotype_of(seqs)
        types = gen.DNA_TYPES if bt == 1 else gen.PROT_TYPES
        t = types[case["type_pick"] % len(types)]
        cfg = {"type": t, "threads": case["threads"], "gpo": -1.0, "gpe": -1.0, "tgpe": -1.0}
        if case["entry"] == "arr":
            r = kal.align_arr(seqs, cfg)
        else:
            nm = ["s%d" % i for i in range(k)]
            if case.get("header") and case["entry"] == "file":
                hi, hl = case["header"]
                hi = hi % k
                nm[hi] = (nm[hi] + " Escherichia coli K-12 " + "hypotheticalproteinMKV " * (hl // 23 + 1))[:hl]
            elif case.get("header") and case["entry"] == "written":
                # headers with blanks cannot be carried by the block formats: one blank-free token of that length (accession
                # lists, UniRef-style identifiers); the writers of the block formats size their lines from the name lengths
                hi, hl = case["header"]
                hi = hi % k
                nm[hi] = (nm[hi] + "|" + "sp|P0A7G6|RECA_ECOLI_hypotheticalproteinMKV|" * (hl // 40 + 1))[:hl]
            r = kal.align_named(nm, seqs, cfg, layout=case.get("layout"))
            if case["entry"] == "written":
                # the same through the files kalign writes (all three formats), independently parsed
                wd = kal.runner.workdir()
                fp = wd.write(kal.fasta_bytes(nm, seqs, layout=case.get("layout")), ".fa")
                rf = kal.run_files([fp], cfg, write=["fasta", "msf", "clu"])
                for fmt in ("fasta", "msf", "clu"):
                    if rf["write_rcs"].get(fmt) != 0 or rf["written"].get(fmt) is None:
                        return engine.violation({"what": "write(%s) failed" % fmt}, kind="status")
                    try:
                        _, frows = kal.formats.parse_any(fmt, rf["written"][fmt])
                    except kal.formats.FormatError as e:
                        return engine.violation({"what": "written %s file does not parse: %s" % (fmt, e), "len": len(s), "copies": k})
                    if len(frows) != k or any(x != s for x in frows):
                        bad = [x for x in frows if x != s][:1]
                        return engine.violation({"what": "written %s file: a row differs from the input string" % fmt, "len": len(s), "copies": k,
                                                 "rows": len(frows), "row": (bad[0][:120] if bad else None), "row_len": len(bad[0]) if bad else None})
    except kal.Failure as f:
        if f.ended.kind == "hang":
            return engine.discard("cpu-limit (inconclusive; hangs are judged by C05)")
        return engine.violation({"what": "process failure", **f.detail()}, kind="crash")
    except kal.Rejected as e:
        return engine.violation({"what": "identical sequences rejected: %s" % e.what, "info": e.info}, kind="status")
    cl = ["entry=" + case["entry"], "biotype=%d" % bt, "type=%d" % t]
    if case.get("header") and case["entry"] in ("file", "written"):
        cl.append("long_header")
        if case["entry"] == "written":
            cl.append("long_header_written")
    if k >= 100:
        cl.append("copies>=100")
    if len(s) >= 500:
        cl.append("len>=500")
    if len(set(s.upper())) == 1:
        cl.append("single_letter")
    if case["threads"] > 1:
        cl.append("threads>1")
    rows = r["rows"]
    if len(rows) != k:
        return engine.violation({"what": "row count %d != %d" % (len(rows), k)}, classes=cl)
    for i, row in enumerate(rows):
        if row != s:
            return engine.violation({"what": "row %d differs from the input string" % i, "len": len(s), "alnlen": r["alnlen"],
                                     "row": row[:120], "gaps": row.count("-"), "cfg": cfg}, classes=cl)
    if r["alnlen"] != len(s):
        return engine.violation({"what": "alignment length %d != %d" % (r["alnlen"], len(s))}, classes=cl)
    return engine.ok(k >= 3 or len(s) >= 2, cl, {"s": s[:60], "len": len(s), "copies": k, "cfg": cfg, "entry": case["entry"]})


# ------------------------------------------------------------------ enumerated size sweeps

def extra(tier, seed, stats):
    import random
    from concurrent.futures import ThreadPoolExecutor
    from vlib import sweeps
    quick = tier == "quick"
    cases_ = []
    for L in sweeps.length_sweep(quick):
        rnd = random.Random(L * 7919 + seed)
        alpha = ALPHAS[L % len(ALPHAS)]
        s = "".join(rnd.choice(alpha) for _ in range(L))
        cases_.append({"s": s, "copies": 2 + L % 4, "type_pick": L % 4, "threads": 1 + L % 4, "entry": ["arr", "file", "written"][(L + 2) % 3],
                       "layout": {"width": [0, 60, 0][L % 3], "eol": "\r\n" if L % 5 == 0 else "\n", "final_eol": L % 4 != 0}})
    for n in sweeps.count_sweep(quick):
        rnd = random.Random(n * 104729 + seed)
        alpha = ALPHAS[n % len(ALPHAS)]
        s = "".join(rnd.choice(alpha) for _ in range(5 + n % 40))
        cases_.append({"s": s, "copies": n, "type_pick": n % 4, "threads": 1 + n % 4, "entry": "arr" if n % 2 else "file",
                       "layout": {"width": 0, "eol": "\n", "final_eol": n % 4 != 0}})
    # header line lengths, enumerated on and next to the usual line-buffer sizes
    for hi, hl in enumerate([100, 127, 128, 129, 255, 256, 257, 511, 512, 513, 1023, 1024, 1025, 4094, 4095, 4096, 4097, 4118, 8191, 8192, 8193,
                             65534, 65535, 65536, 65537, 100000]):
        rnd = random.Random(seed * 7 + hl)
        alpha = gen.AA if hi % 2 else gen.NUC
        cases_.append({"s": "".join(rnd.choice(alpha) for _ in range(40 + hi)), "copies": 3 + hi % 3, "type_pick": hi % 4, "threads": 1, "entry": "file",
                       "layout": {"width": [0, 60][hi % 2], "eol": "\n", "final_eol": True}, "header": [hi, hl]})
    # the same for the written files (blank-free names): name lengths on and next to the name field sizes of the block formats
    for hi, hl in enumerate([60, 100, 127, 128, 129, 200, 250, 255, 256, 257, 258, 260, 262, 263, 264, 270, 300, 320, 323, 324, 400, 511, 512, 513,
                             1000, 1023, 1024, 1025, 4095, 4096, 4097, 8192, 8193, 65536, 70000]):
        rnd = random.Random(seed * 11 + hl)
        alpha = gen.AA if hi % 2 else gen.NUC
        cases_.append({"s": "".join(rnd.choice(alpha) for _ in range([40, 61, 150, 121][hi % 4] + hi)), "copies": 2 + hi % 4, "type_pick": hi % 4, "threads": 1,
                       "entry": "written", "layout": {"width": [0, 60][hi % 2], "eol": "\n", "final_eol": True}, "header": [hi, hl]})
    # residue composition, enumerated: for every letter of the nucleotide / protein alphabets (ambiguity codes and wildcards
    # included) a homopolymer and an ordinary sequence carrying a run of that letter, under every type admissible for it
    for kind_alpha, letters in ((gen.NUC, "ACGTUNRYSWKMBDHV"), (gen.AA, gen.AA + "BZXU")):
        for li, x in enumerate(letters):
            rnd = random.Random(seed * 101 + li)
            bg = "".join(rnd.choice(kind_alpha) for _ in range(30))
            for s_ in (x * 5, x * 41, bg[:10] + x * 4 + bg[10:20] + x * 3 + bg[20:]):
                for tp in range(4):
                    cases_.append({"s": s_, "copies": 2 + (li + tp) % 3, "type_pick": tp, "threads": 1, "entry": "arr" if (li + tp) % 2 else "file",
                                   "layout": {"width": 0, "eol": "\n", "final_eol": True}})
    with ThreadPoolExecutor(max_workers=12) as ex:
        res = list(ex.map(check, cases_))
    out = []
    for c, r in zip(cases_, res):
        stats.record(c, r)
        if r["status"] == "violation":
            out.append({"case": c, "detail": r["detail"], "kind": r.get("kind")})
    stats.extra["sweep"] = ("every string length in the length sweep and every number of copies in the count sweep (vlib/sweeps.py), enumerated; "
                            "every letter of both alphabets (16 nucleotide codes, 24 amino-acid codes) as homopolymer (5, 41) and as runs inside an ordinary sequence x every admissible type")
    return out
