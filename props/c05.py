"""C05 No memory error, crash or hang on any input; failures are reported as failures.

Four legs, one evidence file:
  cli      Hypothesis: generated option strings x well-formed / mutated / hand-shaped files x odd paths -> sanitised CLI
  fuzz     libFuzzer (ASan+UBSan+LSan) targets fuzz_pipeline (read->run->oracle->write) and fuzz_arr (kalign())
  valgrind memcheck on the un-sanitised build over a sample of library cases (uninitialised reads)
  letter   enumerated: every letter x kind gets a defined, case-insensitive internal code (or the input is rejected)
  sweep    enumerated: every row count 2..2100 (thorough 4200), every width 1..260, every name length 1..400 through
           read -> finalise -> write in the three formats under the sanitizers (buffer-growth edges are exact counts)
"""
import base64
import json
import os
import random
import shutil
import subprocess
import time
from concurrent.futures import ThreadPoolExecutor

from hypothesis import strategies as st

from vlib import build, engine, formats, gen, kal, oracle, present, runner

ID = "C05"
RULE = ("cli leg: Hypothesis draws 1..3 input files (well-formed FASTA/aligned FASTA/MSF/Clustal of generated sets; the same "
        "after byte-level mutation: flips, truncation, deleted/duplicated lines, inserted non-ASCII bytes, punctuation and "
        "control characters; hand-shaped: empty, blank, one record, header only, nameless records, punctuation before the first "
        "'>', names of 300..20000 characters, MSF Name: lines without blanks, letters outside the alphabet (X/J/O/U/B/Z), empty "
        "records), an option vector (documented and unknown --type/--format words, numeric / non-numeric / negative / missing "
        "penalty and thread arguments, -q, info requests) and an output target (file, missing directory, a directory, stdout), "
        "plus nonexistent / directory input paths and optional stdin. Oracle: the ASan+UBSan+LSan CLI terminates (CPU limit), "
        "exit status is 0 or 1, never a sanitizer report or signal; status 0 => the output exists, parses, has >= 2 equal-length "
        "rows without an all-gap column, and for well-formed inputs satisfies the full C01 predicate; failure => non-zero status "
        "and a non-empty diagnostic. fuzz leg: libFuzzer targets with the alignment oracle inside the target, from an empty and "
        "from a seed corpus. valgrind leg: memcheck (uninitialised values, invalid accesses) over generated library cases incl. "
        ">= 500 columns and the array API. letter leg: all 52 letters x 2 kinds enumerated. option-grid leg: each numeric option x 27 special spellings of a number, thread counts and type/format words at the edges, and the penalties / thread count / type constant through kalign_run. align-sweep leg: every number of sequences 2..140, 250..261 and every length 1..140, 250..261, 490..519, 1018..1029 read->run->write. sweep leg: every row count 2..2100, every width 1..260 and every name length 1..400 of a synthetic alignment through read->finalise->write(fasta, msf, clu) under ASan/UBSan/LSan (exhaustive over those ranges). Non-trivial (cli) = the case reached "
        "kalign_run (exit 0) or was rejected with a diagnostic after parsing at least one file; distinct by case hash; fuzz "
        "executions are counted separately in coverage.fuzz.")
ASSUMPTIONS = ["byte-level inputs are bounded (fuzz 4 KiB, cli files a few KiB .. 100 KiB)",
               "only crash-/leak- artefacts of libFuzzer count; timeout-/oom-/slow-unit- are load noise unless reproduced under a CPU limit",
               "-h, --version, -showw are information requests: only clean termination is required"]
BUDGET = {"quick": dict(examples=70, workers=8, seconds=70), "thorough": dict(examples=800, workers=12, seconds=900)}
FUZZ = {"quick": dict(procs=6, seconds=45), "thorough": dict(procs=12, seconds=900)}
VALGRIND_N = {"quick": 16, "thorough": 200}
CPU = 60


# ------------------------------------------------------------------ generators (cli leg)

def mutate_bytes(body, seed, n):
    rnd = random.Random(seed)
    b = bytearray(body.encode("latin-1"))
    for _ in range(n):
        if not b:
            b.extend(b">x\nAC\n")
        op = rnd.randrange(8)
        i = rnd.randrange(len(b))
        if op == 0:
            b[i] = rnd.randrange(256)
        elif op == 1:
            del b[i:i + rnd.randint(1, 20)]
        elif op == 2:
            b[i:i] = bytes(rnd.randrange(128, 256) for _ in range(rnd.randint(1, 4)))
        elif op == 3:
            b[i:i] = rnd.choice([b"\n", b"\r\n", b"\t", b" ", b">", b"//", b"-", b".", b"*", b"Name:", b"Len:", b"MSF:", b"\x00", b"\x0c"])
        elif op == 4:
            b = b[:i]
        elif op == 5:
            lines = bytes(b).split(b"\n")
            k = rnd.randrange(len(lines))
            lines.insert(k, lines[rnd.randrange(len(lines))])
            b = bytearray(b"\n".join(lines))
        elif op == 6:
            lines = bytes(b).split(b"\n")
            if len(lines) > 1:
                del lines[rnd.randrange(len(lines))]
            b = bytearray(b"\n".join(lines))
        else:
            b[i:i] = bytes(rnd.choice(b"XJOUBZxjoubz*?!0123456789") for _ in range(rnd.randint(1, 6)))
    return bytes(b).decode("latin-1")


HAND = ["", "\n", "\n\n\n", ">", ">\n", ">a\n", ">a\nACGT\n", ">a\n>b\n", ">a\n\n>b\n\n", "--\n>a\nACGT\n>b\nACGA\n", "ACGT\n>a\nACGT\n>b\nAC\n",
        ".\n>a\nAC\n", ">a\nACGT\n>b\n", ">a\nAC GT\n>b\nAC\tGT\n", "A\n", "x\n>a\nAC\n>b\nAG\n", ">a\nA\n>b\nZ\n", ">a\nJJOO\n>b\nJOUB\n",
        ">a\nACGTXXACGT\n>b\nACGTACGT\n", ">a\nMKVLJOUBZX\n>b\nMKILJOUBZX\n", "PileUp\n\n MSF: 4 Type: N Check: 0 ..\n\n Name:a Len:4\n Name:b Len:4\n\n//\n\na ACGT\nb ACGA\n",
        "!!NA_MULTIPLE_ALIGNMENT 1.0\n MSF: 4 Type: N Check: 0 ..\n Name: aaaa\n//\n", " MSF: 3\n Name: x Len: 3\n//\nx ACG\n", "CLUSTAL W\n\n\n", "CLUSTAL W\n\na ACGT\n",
        "CLUSTAL W (1.83) multiple sequence alignment\n\na    ACGT\nb    AC-T\nc\n", "MSF: CLUSTAL W >\n>a\nAC\n", ">a\n" + "-" * 50 + "\n>b\n" + "." * 50 + "\n",
        " MSF: 3 Type: N\nLen: 3 Check: 1 Name: abcdefgh\nLen: 3 Name: b\n//\nabcdefgh ACG\nb ACG\n", ">a\n\xe9\xe8ACGT\n>b\nAC\xffGT\n", "\xff\xfe>\x00a\x00\n", ">a\nACGT", ">a\r\nACGT\r\n>b\r\nACGA\r\n"]


@st.composite
def file_bodies(draw):
    """-> dict(body, wellformed: None | dict(names, seqs))"""
    mode = draw(st.sampled_from(["good", "good", "mutated", "mutated", "hand", "longname", "oddletters", "emptyrec", "manyrows", "manyrec"]))
    if mode == "manyrec":
        # a well-formed FASTA file with more records than one / two / three of the readers' 512-entry increments (alone, or
        # merged behind / in front of other files)
        n = draw(st.sampled_from([509, 510, 511, 512, 513, 514, 600, 1021, 1022, 1023, 1024, 1025, 1100, 1540]))
        k, alpha = draw(gen.alphabets())
        seqs = gen.expand_random(draw(st.integers(0, 2 ** 32 - 1)), alpha, n, 2, draw(st.integers(2, 5)))
        names = ["m%d" % i for i in range(n)]
        return {"body": formats.write_fasta(names, seqs, width=0), "wf": {"names": names, "seqs": seqs}, "mode": mode}
    if mode == "hand":
        return {"body": draw(st.sampled_from(HAND)), "wf": None, "mode": mode}
    if mode == "manyrows":
        # block formats whose blocks hold more rows than the header announces / than the 512-entry array increments
        nrows = draw(st.sampled_from([3, 5, 511, 512, 513, 600, 1030]))
        nnames = draw(st.sampled_from([0, 1, 2, nrows - 1, nrows]))
        fmt = draw(st.sampled_from(["msf", "clu"]))
        rows = ["r%d ACGTAC" % i for i in range(nrows)]
        if fmt == "msf":
            head = ["!!NA_MULTIPLE_ALIGNMENT 1.0", "", " x.msf  MSF: 6  Type: N  Check: 0  ..", ""] + \
                   [" Name: r%d  Len: 6  Check: 1  Weight: 1.00" % i for i in range(nnames)] + ["", "//", ""]
        else:
            head = ["CLUSTAL W (1.83) multiple sequence alignment", "", ""]
        return {"body": "\n".join(head + rows + ["", ""] + (rows[:draw(st.sampled_from([0, 2, nrows]))])) + "\n", "wf": None, "mode": mode}
    ss = draw(gen.seqsets(max_n=12, max_len=80))
    seqs = ss["seqs"]
    names = draw(gen.names_for(len(seqs), max_len=20, long_names=False))
    if mode == "longname":
        k = draw(st.integers(0, len(names) - 1))
        names[k] = names[k] + "L" * draw(st.sampled_from([250, 255, 256, 300, 330, 400, 1000, 5000, 20000]))
    if mode == "oddletters":
        rnd = random.Random(draw(st.integers(0, 2 ** 16)))
        odd = "XJOUBZxjoubz"
        seqs = ["".join(rnd.choice(odd) if rnd.random() < 0.15 else c for c in s) for s in seqs]
    if mode == "emptyrec":
        seqs = list(seqs)
        seqs.insert(draw(st.integers(0, len(seqs))), "")
        names = names + ["e" + names[0]]
    fmt = draw(st.sampled_from(["fasta", "fasta", "afa", "msf", "clu"])) if mode not in ("emptyrec",) else "fasta"
    ch = {"fmt": "fasta" if fmt in ("fasta", "afa") else fmt, "gapmode": "aligned" if fmt == "afa" else "none", "gapfrac": 0.3,
          "seed": draw(st.integers(0, 999)), "width": draw(st.sampled_from([0, 60, 7])), "eol": draw(st.sampled_from(["\n", "\n", "\r\n"])),
          "kindletter": "P" if ss["kind"] == "protein" else "N", "pileup": draw(st.booleans())}
    nonempty = [(n, s) for n, s in zip(names, seqs) if s]
    if fmt in ("msf", "clu", "afa") and len(nonempty) != len(seqs):
        ch["fmt"] = "fasta"
        ch["gapmode"] = "none"
    body = present.render_chunk(names, seqs, ch)
    wf = {"names": names, "seqs": seqs}
    if mode == "mutated":
        body = mutate_bytes(body, draw(st.integers(0, 2 ** 32 - 1)), draw(st.integers(1, 12)))
        wf = None
    if mode == "longname" and fmt in ("msf", "clu"):
        wf = None   # MSF/Clustal names are cut at 255 characters by design of the format readers
    if mode == "oddletters":
        wf = None   # kind may legitimately be ambiguous; only the generic validity is judged
    return {"body": body, "wf": wf, "mode": mode}


@st.composite
def option_vectors(draw):
    """mostly valid options so that most cases reach the aligner; each option has a tail of invalid values"""
    a = []
    def val(good, bad):
        return draw(st.sampled_from(good)) if draw(st.integers(0, 3)) != 0 else draw(st.sampled_from(bad))
    if draw(st.integers(0, 2)) == 0:
        a += ["--type", val(["dna", "rna", "internal", "protein", "divergent"], ["foo", "", "DNA", "dnarna", "proteininternal", "x" * 300])]
    if draw(st.integers(0, 2)) != 0:
        a += [draw(st.sampled_from(["--format", "-f"])), val(["fasta", "fa", "msf", "clu", "clustal", "afa"], ["xyz", "", "FASTA", "m s f"])]
    for k in ("--gpo", "--gpe", "--tgpe"):
        if draw(st.integers(0, 3)) == 0:
            a += [k, val(["0", "1.5", "5.5", "100", "1e3", "0.001"], ["-3", "abc", "nan", "inf", "-inf", "", "1,5", "1e38", "1e-45"])]
    if draw(st.integers(0, 2)) == 0:
        a += [draw(st.sampled_from(["-n", "--nthreads"])), val(["1", "2", "4", "16"], ["0", "-1", "abc", "", "999999999999"])]
    if draw(st.integers(0, 3)) == 0:
        a += ["-q"]
    if draw(st.integers(0, 30)) == 0:
        a += [draw(st.sampled_from(["-h", "--help", "--version", "-v", "-V", "-showw", "--showw", "--bogus", "-z"]))]
    return a


@st.composite
def cases(draw, tier):
    nfiles = draw(st.sampled_from([1, 1, 1, 2, 3]))
    files = [draw(file_bodies()) for _ in range(nfiles)]
    odd_path = draw(st.sampled_from([None, None, None, None, "missing", "dir"]))
    return {"leg": "cli", "files": files, "args": draw(option_vectors()), "out": draw(st.sampled_from(["file", "file", "file", "stdout", "missing_dir", "is_dir"])),
            "stdin": draw(st.sampled_from([None, None, None, "first"])), "odd_path": odd_path,
            "input_style": draw(st.sampled_from(["positional", "-i", "--input"])),
            # an option that lacks its argument can only be the last word of the command line
            "dangling": draw(st.sampled_from([None] * 9 + ["--gpo", "--set", "-n", "--type", "-o", "-f"])),
            # the two remaining public calls on an msa object, between reading and aligning (library leg)
            "lib_pre": draw(st.lists(st.sampled_from(["checkmsa 0 0", "checkmsa 0 1", "reformat 0 0 0", "reformat 0 1 0", "reformat 0 0 1", "reformat 0 1 1"]),
                                     min_size=0, max_size=2)) if draw(st.integers(0, 2)) == 0 else [],
            "lib_run": draw(st.sampled_from(["2 5 -1 -1 -1", "2 5 -1 -1 -1", "1 5 0 0 0", "4 5 3.5 -1 0", "16 5 -1 0.5 -1"]))}


def strategy(tier):
    return cases(tier)


# ------------------------------------------------------------------ judging

def out_format(args):
    fmt = None
    for i, a in enumerate(args):
        if a in ("--format", "-f") and i + 1 < len(args):
            fmt = args[i + 1]
    if fmt is None:
        return "fasta", True
    for w, f in (("msf", "msf"), ("clu", "clu"), ("fasta", "fasta"), ("fa", "fasta")):
        if w in fmt:
            return f, True
    return None, False


def generic_valid(fmt, text):
    try:
        names, rows = formats.parse_any(fmt, text)
    except formats.FormatError as e:
        return "output does not parse as %s: %s" % (fmt, e)
    if len(rows) < 2:
        return "output has %d rows" % len(rows)
    L = len(rows[0])
    if any(len(r) != L for r in rows):
        return "output rows have unequal lengths"
    if L == 0:
        return "output rows are empty"
    for c in range(L):
        if all(r[c] == "-" for r in rows):
            return "output column %d consists of gaps only" % c
    return None


def check_cli(case):
    wd = runner.workdir()
    paths = []
    for f in case["files"]:
        paths.append(wd.write(f["body"].encode("latin-1"), ".in"))
    stdin = None
    files = list(paths)
    wf_all = all(f["wf"] is not None for f in case["files"])
    if case["stdin"] == "first" and files:
        with open(files[0], "rb") as fh:
            stdin = fh.read()
        files = files[1:]
    if case["odd_path"] == "missing":
        files.append(os.path.join(wd.d, "does_not_exist.fa"))
        wf_all = False
    elif case["odd_path"] == "dir":
        files.append(wd.d)
        wf_all = False
    args = list(case["args"])
    outp = None
    if case["out"] == "file":
        outp = wd.path(".out")
        args += ["-o", outp]
    elif case["out"] == "missing_dir":
        outp = os.path.join(wd.d, "no_such_dir", "x.out")
        args += ["-o", outp]
    elif case["out"] == "is_dir":
        outp = wd.d
        args += ["-o", outp]
    if files:
        if case["input_style"] == "positional":
            args += files
        else:
            args += [case["input_style"], files[0]] + files[1:]
    if case.get("dangling"):
        args.append(case["dangling"])
    env = dict(runner.LEAK_ENV)
    cl = ["cli", "out=" + case["out"]] + ["mode=" + f["mode"] for f in case["files"]]
    # library leg on the same files: read -> run -> all three writers in one sanitised process (any status is fine,
    # a sanitizer report or crash is not)
    if paths:
        lines = ["read 0 1 %s" % p for p in paths] + list(case.get("lib_pre") or []) + ["run 0 %s" % case.get("lib_run", "2 5 -1 -1 -1")] + \
                ["write 0 %s %s" % (fmt, wd.path("." + fmt)) for fmt in ("fasta", "msf", "clu")] + ["free 0"]
        pr = runner.run_probe(lines, cpu=CPU)
        if pr.ended.bad:
            return engine.violation({"what": "library read->run->write(fasta,msf,clu) ended with %s" % pr.ended.kind, **pr.ended.brief()},
                                    classes=cl + ["lib_leg"], kind="hang" if pr.ended.kind == "hang" else "crash")
    en = runner.run_cli(args, stdin=stdin, env=env, cpu=CPU)
    info = any(a in ("-h", "--help", "--version", "-v", "-V", "-showw", "--showw") for a in case["args"])
    if en.kind == "leak":
        # the property claims "no leak on the success path": find out which path this was
        en2 = runner.run_cli(args, stdin=stdin, env=None, cpu=CPU)
        if not en2.bad and en2.rc != 0:
            cl.append("leak_on_error_path(not claimed)")
            en = en2
    if en.bad:
        kind = en.kind
        return engine.violation({"what": "CLI ended with %s" % kind, **en.brief(), "args": args[:12]}, classes=cl,
                                kind="hang" if kind == "hang" else "crash")
    if not (0 <= en.rc <= 125):
        # any non-zero exit status is "a failure status"; values a shell reserves (126.., killed by a signal) are not
        return engine.violation({"what": "exit status %d" % en.rc, "args": args[:12], "stderr": en.err[-300:]}, classes=cl, kind="status")
    if info:
        return engine.ok(False, cl + ["info_request"], None)
    if en.rc == 0:
        fmt, known = out_format(case["args"])
        if not files and stdin is None:
            return engine.ok(False, cl + ["no_input"], None)     # "No input files": prints help, exit 0 by design
        if not known:
            return engine.violation({"what": "unknown --format accepted with status 0", "args": args[:12]}, classes=cl, kind="status")
        if case["out"] == "stdout":
            # kalign writes its log (and, even with -q, its warnings) to stdout ahead of the alignment
            import re
            text = en.out.decode("latin-1")
            lines = text.split("\n")
            last = -1
            for i, ln in enumerate(lines):
                if re.match(r"^\[\d{4}-\d\d-\d\d \d\d:\d\d:\d\d\] :", ln):
                    last = i
            text = "\n".join(lines[last + 1:])
        else:
            if case["out"] != "file" or not os.path.isfile(outp):
                return engine.violation({"what": "status 0 but the requested output %s was not written" % case["out"], "args": args[:12],
                                         "stdout": en.out[-300:].decode("latin-1")}, classes=cl, kind="status")
            with open(outp, "rb") as fh:
                text = fh.read().decode("latin-1")
        bad = generic_valid(fmt, text)
        if bad:
            return engine.violation({"what": "status 0 but %s" % bad, "args": args[:12], "head": text[:300]}, classes=cl)
        if wf_all:
            names, seqs = [], []
            for f in case["files"]:
                names += f["wf"]["names"]
                seqs += f["wf"]["seqs"]
            ne = [(n, s) for n, s in zip(names, seqs) if s]
            pn, pr = formats.parse_any(fmt, text)
            want_names = [n for n, _ in ne]
            if fmt in ("msf", "clu"):
                # the block formats carry at most MSA_NAME_LEN-1 = 255 characters of a name
                want_names = [n[:255] for n in want_names]
                pn = [n[:255] for n in pn]
            bad = oracle.integrity(want_names, [s for _, s in ne], pn, pr)
            if bad:
                return engine.violation({"what": "status 0 but the output is not an alignment of the input: %s" % bad, "args": args[:12]}, classes=cl)
        return engine.ok(True, cl + ["aligned"], {"args": args[:10], "files": [f["body"][:80] for f in case["files"]], "rc": 0})
    # failure status: a diagnostic is required
    diag = (en.err or "").strip() or en.out.decode("latin-1").strip()
    if not diag:
        return engine.violation({"what": "failure status without any diagnostic", "args": args[:12]}, classes=cl, kind="status")
    return engine.ok(any(len(f["body"]) > 8 for f in case["files"]), cl + ["rejected"],
                     {"args": args[:10], "files": [f["body"][:80] for f in case["files"]], "rc": en.rc, "diag": diag[-120:]})


# ------------------------------------------------------------------ fuzz leg

def fuzz_bins():
    b = build.ensure("fuzz")
    d = os.path.join(b["dir"], "fuzzbin")
    stamp = os.path.join(d, "OK")
    bins = {"pipeline": os.path.join(d, "fuzz_pipeline"), "arr": os.path.join(d, "fuzz_arr")}
    if os.path.exists(stamp):
        return bins
    with build.Lock(d + ".lock"):
        if os.path.exists(stamp):
            return bins
        os.makedirs(d, exist_ok=True)
        for name in bins:
            build._run(["clang++", "-std=gnu++17", "-g", "-O1", "-fsanitize=fuzzer,address,undefined", "-fno-sanitize-recover=undefined",
                        "-fno-omit-frame-pointer", "-DKALIGN_VERIF", "-I", os.path.join(build.REPO, "lib", "include"),
                        "-I", os.path.join(build.REPO, "lib", "src"), "-I", b["incbin"],
                        os.path.join(build.NATIVE, "fuzz", "fuzz_%s.cc" % name), b["lib"], "-lm", "-o", bins[name]])
        with open(stamp, "w") as fh:
            fh.write("ok\n")
    return bins


FUZZ_ENV = {"ASAN_OPTIONS": "detect_leaks=1:allocator_may_return_null=1:abort_on_error=0:exitcode=99",
            "UBSAN_OPTIONS": "print_stacktrace=1:halt_on_error=1"}


def run_fuzz_artifact(target, data):
    bins = fuzz_bins()
    wd = runner.workdir()
    p = wd.write(data, ".artifact")
    en = runner.run_proc([bins[target], "-timeout=25", "-rss_limit_mb=4096", "-detect_leaks=0", p], env=FUZZ_ENV, cpu=CPU)
    err = en.err or ""
    if "ORACLE-VIOLATION" in err or "ERROR: AddressSanitizer" in err or "runtime error:" in err or "ERROR: LeakSanitizer" in err \
            or "ERROR: libFuzzer: deadly signal" in err or (en.rc is not None and en.rc < 0) or "libFuzzer: timeout" in err:
        lines = [l for l in err.splitlines() if "ERROR" in l or "ORACLE" in l or "runtime error" in l or "SUMMARY" in l or l.strip().startswith("#")]
        return "\n".join(lines[:14])[:1800]
    return None


def seed_corpus(target):
    d = os.path.join(engine.VERIF, "corpus", target)
    return d if os.path.isdir(d) and os.listdir(d) else None


def fuzz_leg(tier, seed, stats):
    out = []
    cfg = FUZZ[tier]
    bins = fuzz_bins()
    tmp = os.path.join(build.BUILD, "tmp", "fuzz.%d" % os.getpid())
    shutil.rmtree(tmp, ignore_errors=True)
    os.makedirs(tmp)
    jobs = []
    for k in range(cfg["procs"]):
        target = "pipeline" if k % 3 != 2 else "arr"
        wdir = os.path.join(tmp, "w%d" % k)
        os.makedirs(os.path.join(wdir, "corpus"))
        os.makedirs(os.path.join(wdir, "art"))
        argv = [bins[target], "-max_total_time=%d" % cfg["seconds"], "-max_len=4096", "-timeout=25", "-rss_limit_mb=4096",
                "-seed=%d" % ((seed * 7919 + k * 104729) % (2 ** 31 - 1) + 1), "-artifact_prefix=" + os.path.join(wdir, "art") + "/",
                "-print_final_stats=1", "-use_value_profile=1", "-detect_leaks=0", os.path.join(wdir, "corpus")]
        sc = seed_corpus(target)
        if sc and k % 2 == 0:
            argv.append(sc)
        d = os.path.join(engine.VERIF, "native", "fuzz", "%s.dict" % target)
        if os.path.exists(d):
            argv.append("-dict=" + d)
        jobs.append((k, target, wdir, argv))

    def do(job):
        k, target, wdir, argv = job
        e = dict(runner.BASE_ENV)
        e.update(FUZZ_ENV)
        e["KFUZZ_STATS"] = os.path.join(wdir, "stats.json")
        with open(os.path.join(wdir, "log"), "wb") as lf:
            p = subprocess.run(argv, env=e, stdout=subprocess.DEVNULL, stderr=lf, timeout=cfg["seconds"] * 3 + 300)
        return job, p.returncode

    with ThreadPoolExecutor(max_workers=cfg["procs"]) as ex:
        results = list(ex.map(do, jobs))
    fz = {"exec": 0, "read_ok": 0, "run_ok": 0, "run_fail": 0, "written": 0, "read_rejected": 0, "procs": cfg["procs"], "seconds": cfg["seconds"]}
    for (k, target, wdir, argv), rc in results:
        try:
            with open(os.path.join(wdir, "stats.json")) as fh:
                s = json.load(fh)
            for kk, v in s.items():
                fz[kk] = fz.get(kk, 0) + v
        except (OSError, ValueError):
            pass
        for f in sorted(os.listdir(os.path.join(wdir, "art"))):
            p = os.path.join(wdir, "art", f)
            if not (f.startswith("crash-") or f.startswith("leak-")):
                continue     # timeout-/oom-/slow-unit-: load noise, not judged here
            with open(p, "rb") as fh:
                data = fh.read()
            case = {"leg": "fuzz", "target": target, "artifact_b64": base64.b64encode(data).decode()}
            with open(os.path.join(wdir, "log"), "rb") as fh:
                tail = fh.read()[-3000:].decode("latin-1")
            out.append({"case": case, "detail": {"what": "libFuzzer artefact %s (%s)" % (f[:40], target), "log": tail[-1500:]}, "kind": "crash"})
    stats.extra["fuzz"] = fz
    stats.evaluations += 0
    stats.classes["fuzz_exec"] += fz["exec"]
    stats.classes["fuzz_reached_run"] += fz["run_ok"] + fz["run_fail"]
    stats.classes["fuzz_run_ok"] += fz["run_ok"]
    shutil.rmtree(tmp, ignore_errors=True)
    return out


# ------------------------------------------------------------------ valgrind leg

def valgrind_case(case):
    """case: dict(leg='valgrind', seqs, entry, cfg)"""
    b = build.ensure("plain")
    wd = runner.workdir()
    seqs, cfg = case["seqs"], case["cfg"]
    if case["entry"] == "arr":
        sp = wd.write(runner.seqset_bytes(seqs), ".seqs")
        lines = ["arr %s %s" % (sp, kal.cfg_args(cfg))]
    else:
        names = ["s%d" % i for i in range(len(seqs))]
        fp = wd.write(kal.fasta_bytes(names, seqs), ".fa")
        op = wd.path(".msf")
        lines = ["read 0 1 %s" % fp, "run 0 %s" % kal.cfg_args(cfg), "write 0 msf %s" % op, "free 0"]
    script = wd.write("\n".join(lines) + "\n", ".script")
    res = wd.path(".json")
    en = runner.run_proc(["valgrind", "-q", "--error-exitcode=95", "--track-origins=yes", "--errors-for-leak-kinds=none",
                          b["probe"], script, res], cpu=600, wall=1200)
    if en.rc == 95 or "== Invalid" in (en.err or "") or "uninitialised" in (en.err or ""):
        lines = [l for l in (en.err or "").splitlines() if "==" in l][:18]
        return "\n".join(lines)[:2000]
    return None


def valgrind_leg(tier, seed, stats):
    out = []
    rnd = random.Random(seed * 31 + 5)
    cases_ = []
    for k in range(VALGRIND_N[tier]):
        alpha = rnd.choice([gen.NUC, gen.AA, gen.NUC_N, gen.AA_X])
        shape = k % 4
        if shape == 0:
            seqs = gen.expand_family(rnd.randrange(2 ** 32), alpha, rnd.randint(2, 4), rnd.randint(510, 800), 0.1, 0.03, 0.0)
        elif shape == 1:
            seqs = gen.expand_family(rnd.randrange(2 ** 32), alpha, rnd.randint(100, 130), rnd.randint(10, 40), 0.2, 0.05, 0.2)
        elif shape == 2:
            seqs = gen.expand_family(rnd.randrange(2 ** 32), alpha, rnd.randint(3, 30), rnd.randint(5, 120), 0.2, 0.05, 0.3)
        else:
            seqs = gen.expand_random(rnd.randrange(2 ** 32), alpha + "XJOUxjou", rnd.randint(2, 10), 1, 60)
        kind = gen.expected_kind(seqs)
        t = rnd.choice(gen.DNA_TYPES if kind == "dna" else gen.PROT_TYPES) if kind else 5
        cases_.append({"leg": "valgrind", "seqs": seqs, "entry": rnd.choice(["arr", "file"]),
                       "cfg": {"type": t, "threads": rnd.choice([1, 2, 4]), "gpo": -1.0, "gpe": -1.0, "tgpe": -1.0}})
    with ThreadPoolExecutor(max_workers=12) as ex:
        res = list(ex.map(valgrind_case, cases_))
    for c, r in zip(cases_, res):
        stats.evaluations += 1
        stats.classes["valgrind_runs"] += 1
        stats.nontrivial.add("vg:" + engine.case_hash(c))
        if r:
            out.append({"case": c, "detail": {"what": "valgrind memcheck error", "report": r}, "kind": "crash"})
    return out


# ------------------------------------------------------------------ letter leg

def letter_case(case):
    """case: dict(leg='letter', kind, letter)"""
    kind, L = case["kind"], case["letter"]
    ctx = "ACGTTGCA" if kind == "dna" else "MKVLDEFHIW"
    s1 = ctx + L.upper() + ctx[::-1] + L.lower() + ctx[:3]
    s2 = ctx[:5] + L.lower() + ctx + L.upper()
    s3 = ctx + ctx[::-1]
    try:
        r = kal.align_named(["a", "b", "c"], [s1, s2, s3], {"type": 5, "threads": 1}, codes=True)
    except kal.Failure as f:
        return {"what": "process failure for letter %r in %s context" % (L, kind), **f.detail()}
    except kal.Rejected:
        return None    # rejecting the letter is fine
    m = r["msa"]
    lim = 23 if m["biotype"] == 0 else 5
    codes = set()
    for q in m["seqs"][:2]:
        res = q["seq"].replace("-", "")
        for ch, code in zip(res, q["s"]):
            if ch.upper() == L.upper():
                codes.add(code)
            if not (0 <= code < lim):
                return {"what": "internal code %d for %r is outside the alphabet of size %d" % (code, ch, lim), "kind": kind}
    if len(codes) != 1:
        return {"what": "letter %r maps to different codes %s (case / position dependent)" % (L, sorted(codes)), "kind": kind}
    return None


def letter_leg(tier, seed, stats):
    out = []
    import string
    for kind in ("dna", "protein"):
        for L in string.ascii_uppercase:
            c = {"leg": "letter", "kind": kind, "letter": L}
            r = letter_case(c)
            stats.evaluations += 1
            stats.classes["letters_enumerated"] += 1
            stats.nontrivial.add("letter:%s:%s" % (kind, L))
            if r:
                out.append({"case": c, "detail": r, "kind": "mismatch"})
    return out


# ------------------------------------------------------------------ size sweep leg (enumerated)

def sweep_case(case):
    """case: dict(leg='sweep', items=[(n rows, width, name length), ...]): synthetic alignments read -> finalised -> written
    in all three formats inside one sanitised process per item batch"""
    wd = runner.workdir()
    lines = []
    for n, w, nl in case["items"]:
        rows = []
        for i in range(n):
            r = ["ACGT"[(i + c) % 4] for c in range(w)]
            r[i % w] = "-" if w > 1 else r[0]
            rows.append("".join(r))
        if w > 1 and not any("-" in r for r in rows):
            rows[0] = "-" + rows[0][1:]
        if w == 1:
            rows = ["A-" if i % 2 else "-A" for i in range(n)]
        names = [("s%d_" % i + "n" * nl)[:max(nl, len("s%d" % i))] for i in range(n)]
        fp = wd.write(formats.write_fasta(names, rows, width=60).encode("latin-1"), ".afa")
        lines += ["read 0 1 %s" % fp, "finalise 0"] + ["write 0 %s %s" % (f, wd.path("." + f)) for f in ("fasta", "msf", "clu")] + ["free 0"]
    pr = runner.run_probe(lines, env=runner.LEAK_ENV, cpu=300)
    if pr.ended.bad:
        at = len(pr.steps or []) // 6
        item = case["items"][min(at, len(case["items"]) - 1)]
        return {"what": "read->finalise->write x3 ended with %s at (rows, width, name length) = %s" % (pr.ended.kind, item), **pr.ended.brief()}
    return None


def sweep_leg(tier, seed, stats):
    out = []
    top = 2100 if tier == "quick" else 4200
    items = [(n, 2, 2) for n in range(2, top + 1)] + [(3, w, 2) for w in range(1, 261)] + [(3, 70, nl) for nl in range(1, 401)] + \
            [(n, 61, 2) for n in (16, 17, 18, 340, 341, 342, 510, 511, 512, 513)]
    batches = []
    cur, cost = [], 0
    for it in items:
        cur.append(it)
        cost += it[0] * max(1, it[1] // 8)
        if cost > 6000 or len(cur) >= 40:
            batches.append(cur)
            cur, cost = [], 0
    if cur:
        batches.append(cur)
    cases_ = [{"leg": "sweep", "items": b} for b in batches]
    with ThreadPoolExecutor(max_workers=12) as ex:
        res = list(ex.map(sweep_case, cases_))
    for c, r in zip(cases_, res):
        stats.evaluations += len(c["items"])
        stats.classes["sweep_items"] += len(c["items"])
        if r:
            out.append({"case": c, "detail": r, "kind": "crash"})
    stats.nontrivial.add("sweep:%d" % len(items))
    stats.extra["sweep"] = "rows 2..%d (width 2) + widths 1..260 (3 rows) + name lengths 1..400 + block-edge row counts, each written in 3 formats under ASan/UBSan/LSan" % top
    return out


def asweep_case(case):
    """case: dict(leg='asweep', items=[(n sequences, length), ...]): families read -> aligned -> written in all three
    formats inside one sanitised process per batch (every number of sequences / every length of the sweeps)"""
    from vlib import sweeps
    wd = runner.workdir()
    lines = []
    for n, L in case["items"]:
        seqs = sweeps.family(n, L, "dna" if (n + L) % 2 else "protein", salt=case.get("salt", 0))
        fp = wd.write(kal.fasta_bytes(["s%d" % i for i in range(len(seqs))], seqs), ".fa")
        lines += ["read 0 1 %s" % fp, "run 0 %d 5 -1 -1 -1" % (1 + (n + L) % 3)] + ["write 0 %s %s" % (f, wd.path("." + f)) for f in ("fasta", "msf", "clu")] + ["free 0"]
    pr = runner.run_probe(lines, env=runner.LEAK_ENV, cpu=600)
    if pr.ended.bad:
        at = len(pr.steps or []) // 6
        item = case["items"][min(at, len(case["items"]) - 1)]
        return {"what": "read->run->write x3 ended with %s at (sequences, length) = %s" % (pr.ended.kind, item), **pr.ended.brief()}
    bad = [(case["items"][i // 6], st.get("rc")) for i, st in enumerate(pr.steps or []) if i % 6 in (0, 1, 2, 3, 4) and st.get("rc") != 0]
    if bad:
        return {"what": "a valid family was not aligned/written: (sequences, length) = %s, rc %s" % bad[0]}
    return None


def option_grid_leg(tier, seed, stats):
    """every numeric option x every special spelling of a number (nan, inf, hex, exponents, signs, blanks, ...), the type and
    format words in odd spellings, thread counts at the edges: one CLI run each on a fixed valid input (nucleotide and
    protein), and the penalties also through kalign_run; judged like every other CLI case"""
    out = []
    good = [{"body": ">a\nACGTACGTTACG\n>b\nACGTCGTTACGA\n>c\nACGTACGTACG\n", "wf": {"names": ["a", "b", "c"], "seqs": ["ACGTACGTTACG", "ACGTCGTTACGA", "ACGTACGTACG"]}, "mode": "good"},
            {"body": ">p\nMKVLHHWDEFK\n>q\nMKILHWDEFKR\n>r\nMKVHHWDEF\n", "wf": {"names": ["p", "q", "r"], "seqs": ["MKVLHHWDEFK", "MKILHWDEFKR", "MKVHHWDEF"]}, "mode": "good"}]
    numbers = ["nan", "NaN", "-nan", "nan(1)", "inf", "-inf", "infinity", "1e38", "1e39", "1e-45", "-0", "0x10", "1e6", "1000001", "", " 5", "5 ", "+5", "5,5",
               ".5", "5.", "1e", "--5", "5e-1", "00005", "5f", "1_000"]
    vecs = []
    for opt in ("--gpo", "--gpe", "--tgpe"):
        for v in numbers:
            vecs.append(([opt, v], "2 5 -1 -1 -1"))
    for v in ["0", "-1", "1", "17", "64", "1000", "99999", "2147483647", "2147483648", "4294967297", "abc", "", "1.5", "0x4"]:
        vecs.append((["-n", v], "2 5 -1 -1 -1"))
    for v in ["DNA", "Dna", "dna ", " dna", "rnadna", "internalprotein", "pfasta", "clustal", "clu", "msfasta", "fa", "FASTA", "afa", "a2m", "phylip"]:
        vecs.append((["--type" if v[:1].lower() in "dri" or "protein" in v else "--format", v], "2 5 -1 -1 -1"))
    for lr in ("1 5 nan -1 -1", "1 5 -1 nan -1", "1 5 -1 -1 nan", "2 5 nan nan nan", "1 5 inf -1 -1", "1 5 -1 -1 -inf", "1 5 1e38 1e38 1e38",
               "1 5 1e-45 0 1e-45", "0 5 -1 -1 -1", "-3 5 -1 -1 -1", "100000 5 -1 -1 -1", "1 99 -1 -1 -1", "1 -7 -1 -1 -1"):
        vecs.append((["--format", "msf"], lr))
    cases_ = []
    for i, (args, lr) in enumerate(vecs):
        cases_.append({"leg": "cli", "files": [good[i % 2]], "args": list(args) + (["--format", "fasta"] if "--format" not in args else []), "out": "file", "stdin": None,
                       "odd_path": None, "input_style": "positional", "dangling": None, "lib_pre": [], "lib_run": lr})
    with ThreadPoolExecutor(max_workers=12) as ex:
        res = list(ex.map(check_cli, cases_))
    for c, r in zip(cases_, res):
        stats.record(c, r)
        stats.classes["option_grid"] += 1
        if r["status"] == "violation":
            out.append({"case": c, "detail": r["detail"], "kind": r.get("kind")})
    return out


def asweep_leg(tier, seed, stats):
    from vlib import sweeps
    out = []
    quick = tier == "quick"
    items = [(n, 12) for n in sweeps.count_sweep(quick)] + [(3, L) for L in sweeps.length_sweep(quick)]
    batches, cur, cost = [], [], 0
    for it in items:
        cur.append(it)
        cost += it[0] * it[0] * it[1] // 50 + it[0] * it[1] * it[1] // 400
        if cost > 3000 or len(cur) >= 24:
            batches.append(cur)
            cur, cost = [], 0
    if cur:
        batches.append(cur)
    cases_ = [{"leg": "asweep", "items": b, "salt": seed} for b in batches]
    with ThreadPoolExecutor(max_workers=12) as ex:
        res = list(ex.map(asweep_case, cases_))
    for c, r in zip(cases_, res):
        stats.evaluations += len(c["items"])
        stats.classes["align_sweep_items"] += len(c["items"])
        if r:
            out.append({"case": c, "detail": r, "kind": "crash"})
    stats.nontrivial.add("asweep:%d" % len(items))
    stats.extra["align_sweep"] = "every number of sequences and every sequence length of vlib/sweeps.py read -> aligned -> written in 3 formats under ASan/UBSan/LSan"
    return out


# ------------------------------------------------------------------ engine glue

def check(case):
    leg = case.get("leg", "cli")
    if leg == "cli":
        return check_cli(case)
    if leg == "fuzz":
        r = run_fuzz_artifact(case["target"], base64.b64decode(case["artifact_b64"]))
        if r:
            return engine.violation({"what": "fuzz target %s fails on the saved input" % case["target"], "report": r}, kind="crash")
        return engine.ok(True, ["fuzz_replay"], None)
    if leg == "valgrind":
        r = valgrind_case(case)
        if r:
            return engine.violation({"what": "valgrind memcheck error", "report": r}, kind="crash")
        return engine.ok(True, ["valgrind_replay"], None)
    if leg == "letter":
        r = letter_case(case)
        if r:
            return engine.violation(r)
        return engine.ok(True, ["letter_replay"], None)
    if leg == "sweep":
        r = sweep_case(case)
        if r:
            return engine.violation(r, kind="crash")
        return engine.ok(True, ["sweep_replay"], None)
    if leg == "asweep":
        r = asweep_case(case)
        if r:
            return engine.violation(r, kind="crash")
        return engine.ok(True, ["asweep_replay"], None)
    if leg == "probe":
        # regression inputs for library-level findings: a probe script over inline files
        wd = runner.workdir()
        lines = []
        for ln in case["script"]:
            for i, body in enumerate(case.get("files", [])):
                if "{f%d}" % i in ln:
                    ln = ln.replace("{f%d}" % i, wd.write(body.encode("latin-1"), ".in"))
            if "{seqs}" in ln:
                ln = ln.replace("{seqs}", wd.write(runner.seqset_bytes(case["seqs"]), ".seqs"))
            lines.append(ln)
        pr = runner.run_probe(lines, variant=case.get("variant", "asan"), env=runner.LEAK_ENV)
        if pr.ended.bad:
            return engine.violation({"what": "probe ended with %s" % pr.ended.kind, **pr.ended.brief()}, kind="crash")
        return engine.ok(True, ["probe_replay"], None)
    return engine.discard("unknown leg")


def extra(tier, seed, stats):
    out = []
    out += letter_leg(tier, seed, stats)
    out += sweep_leg(tier, seed, stats)
    out += asweep_leg(tier, seed, stats)
    out += option_grid_leg(tier, seed, stats)
    out += valgrind_leg(tier, seed, stats)
    out += fuzz_leg(tier, seed, stats)
    return out
