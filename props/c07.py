"""C07 The DP kernels return the optimum whenever it is certifiably unique."""
import random

from hypothesis import strategies as st

from vlib import dporacle, engine, gen, kal, params_model

ID = "C07"
RULE = ("Pairs (a, b) built from a planted alignment: b = a with substitutions, internal indels of length 1..40 and overhangs at "
        "either end of either sequence (absolute 1..40 residues, or relative: half / once / twice the core length, i.e. suffix-prefix overlaps); lengths 1..700 (quick) / 1..1500 (thorough), so both sides of the 500-column switch; "
        "alphabets ACGT / 20 amino acids; all five alignment types (plus 'undefined') or explicit penalties (all three given, "
        "multiples of 0.5); groups of k, l in 1..3 identical copies (seq-seq, seq-profile, profile-profile kernels; which kernel "
        "decided is read from the DP hook events); threads 1..16; through kalign(). Oracle: independent full-matrix three-state "
        "DP in double precision over the three-state scoring model with the substitution matrix and penalties kalign reports to be in effect (PARAMS hook; that they are the documented ones is C09's subject) (open and close each gpo, extension gpe, terminal columns "
        "tgpe) with a margin certificate: OPT by traceback; margin against every alternative with the same terminal gaps via "
        "forward+backward matrices on the interior rectangle; margin against alternatives with different terminal gaps with "
        "OPT charged for closing its terminal gaps and the alternatives not; required margin = max(len)/2000 (centre bias) + "
        "0.01 (+1e-4*|score| when the parameters are not exactly representable). Only certified cases are judged: kalign's "
        "gap pattern of the a-rows vs b-rows must equal OPT and all copies must have identical rows. Non-trivial = certified, "
        "a != b and OPT has >= 1 gap; uncertified cases are counted as discards.")
ASSUMPTIONS = ["the oracle's scoring model (validated by brute-force enumeration for lengths <= 5 in tools/selftest_oracle.py)",
               "groups: Sellers distance(a,b) >= 1, otherwise the guide tree need not join the copies first (then k = l = 1)"]
BUDGET = {"quick": dict(examples=1600, workers=12, seconds=80), "thorough": dict(examples=1300, workers=16, seconds=840)}

SET_FOR = {("dna", 0): "dna", ("dna", 1): "internal", ("dna", 2): "rna", ("dna", 5): "rna",
           ("protein", 3): "protein", ("protein", 4): "divergent", ("protein", 5): "protein"}


def plant(seed, alpha, la, sub, nindel, maxindel, overhang, at_splits=False):
    rnd = random.Random(seed)
    a = [rnd.choice(alpha) for _ in range(la)]
    b = []
    i = 0
    events = sorted(rnd.sample(range(1, max(2, la)), min(nindel, max(0, la - 1)))) if la > 2 else []
    if at_splits and la > 16:
        # indels on and next to the rows at which a divide-and-conquer DP cuts the problem (1/2, 1/4, 3/4, 1/8 ...): the
        # boundary states handed from a block to its halves are exercised only when a gap crosses such a row
        rows = [la // 2, la // 4, (3 * la) // 4, la // 8, (5 * la) // 8]
        events = sorted(set(min(la - 1, max(1, r + rnd.randint(-maxindel, 2))) for r in rows[:max(1, nindel)]))
    ev = set(events)
    while i < la:
        if i in ev:
            L = rnd.randint(1, maxindel)
            if rnd.random() < 0.5:
                i += L          # deletion in b
                if i >= la:
                    break
            else:
                b.extend(rnd.choice(alpha) for _ in range(L))   # insertion in b
        c = a[i]
        if rnd.random() < sub:
            c = rnd.choice(alpha)
        b.append(c)
        i += 1
    a = "".join(a)
    b = "".join(b) or rnd.choice(alpha)
    if overhang < 0:
        # overhang relative to the core: as long as / longer than the aligned part (suffix-prefix overlaps)
        overhang = max(1, int(-overhang * max(1, la) / 2))
    for side in range(4):
        if overhang and rnd.random() < 0.3:
            ext = "".join(rnd.choice(alpha) for _ in range(rnd.randint(max(1, overhang // 2), overhang)))
            if side == 0:
                a = ext + a
            elif side == 1:
                a = a + ext
            elif side == 2:
                b = ext + b
            else:
                b = b + ext
    return a, b


@st.composite
def cases(draw, tier):
    kind = draw(st.sampled_from(["dna", "protein"]))
    # mostly the plain letters; sometimes with the wildcard / ambiguity codes at a frequency at which their scores decide
    # alignments (X, U -> X, B, Z; N)
    alpha = draw(st.sampled_from([gen.NUC, gen.NUC, gen.NUC, gen.NUC + "N", gen.NUC + "NN"] if kind == "dna" else
                                 [gen.AA, gen.AA, gen.AA, gen.AA_X, gen.AA + "XXXXX", gen.AA + "XXUUBZ"]))
    mode = draw(st.sampled_from(["tiny", "tiny", "planted", "planted", "planted", "planted", "planted", "planted", "long", "long", "overlap", "overlap", "xlong"]))
    if mode == "overlap":
        # suffix-prefix overlap: a short shared core, long overhangs on opposite ends (either sequence may be the longer one)
        rnd = random.Random(draw(st.integers(0, 2 ** 32 - 1)))
        core = "".join(rnd.choice(alpha) for _ in range(draw(st.integers(8, 60))))
        x = "".join(rnd.choice(alpha) for _ in range(draw(st.integers(0, 150))))
        y = "".join(rnd.choice(alpha) for _ in range(draw(st.integers(0, 150))))
        core2 = "".join(c if rnd.random() > draw(st.sampled_from([0.0, 0.05, 0.15])) else rnd.choice(alpha) for c in core)
        a, b = x + core, core2 + y
        if draw(st.booleans()):
            a, b = b, a
    elif mode == "tiny":
        a = draw(st.text(alphabet=alpha, min_size=1, max_size=12))
        b = draw(st.text(alphabet=alpha, min_size=1, max_size=12))
    else:
        if mode == "long":
            la = draw(st.integers(480, 700 if tier == "quick" else 1500))
        elif mode == "xlong":
            # two levels of the parallel (>= 500 rows) driver
            la = draw(st.integers(1001, 1300 if tier == "quick" else 2300))
        else:
            la = draw(st.one_of(st.integers(2, 400), st.integers(5, 60)))
        a, b = plant(draw(st.integers(0, 2 ** 32 - 1)), alpha, la, draw(st.sampled_from([0.0, 0.05, 0.15, 0.3])),
                     draw(st.integers(0, 4)) if mode != "xlong" else draw(st.integers(1, 4)), draw(st.sampled_from([1, 3, 10, 40])),
                     draw(st.sampled_from([0, 0, 5, 40, -1, -2, -4])) if mode != "xlong" else draw(st.sampled_from([0, 0, 5, 40])),
                     at_splits=(mode == "xlong") or draw(st.integers(0, 2)) == 0)
    types = gen.DNA_TYPES if kind == "dna" else gen.PROT_TYPES
    t = draw(st.sampled_from(types))
    if draw(st.integers(0, 2)) == 0:
        halves = st.integers(0, 40).map(lambda x: x / 2.0)
        pens = [draw(halves), draw(halves), draw(halves)]
    else:
        pens = [-1.0, -1.0, -1.0]
    # group sizes: the three kernels about equally often (seq-seq 1x1, seq-profile 1xn / nx1, profile-profile nxm)
    k, l = draw(st.sampled_from([(1, 1), (1, 1), (1, 1), (1, 2), (2, 1), (1, 3), (3, 1), (2, 2), (2, 2), (2, 3), (3, 2), (3, 3)]))
    return {"a": a, "b": b, "kind": kind, "type": t, "pens": pens, "k": k, "l": l, "threads": draw(gen.threads), "a_first": draw(st.booleans())}


def strategy(tier):
    return cases(tier)


def _crossings(n, lo_run, hi_run):
    """number of Hirschberg split rows that fall strictly inside the gap run [lo_run, hi_run) of the row sequence 0..n"""
    lo, hi, c = 0, n, 0
    for _ in range(64):
        if hi - lo < 2:
            break
        mid = lo + (hi - lo) // 2
        if lo_run < mid < hi_run:
            c += 1
            if lo_run <= lo:      # leading run: the rows above the split are all gap rows; go on below it
                lo = mid
            else:
                hi = mid
        elif mid >= hi_run:
            hi = mid
        else:
            lo = mid
        if not (lo < hi_run and hi > lo_run) or (lo_run <= lo and hi <= hi_run):
            break
    return c


def terminal_profile(a, b, cols, gpo, tgpe, k=1, l=1):
    """(always, maybe): penalty every terminal gap pays beyond L*tgpe for certain (row-side gaps: the closing gpo), and
    the further amount kalign *may* charge for gaps on the column side of the final merge (F18): the closing gpo plus one
    tgpe per Hirschberg split the run crosses (+1 slack).  The column side follows do_align: seq-seq and profile-profile put
    the longer one on the columns (the second on a tie), seq-profile always puts the single sequence there."""
    first = cols.index(0)
    last = len(cols) - 1 - cols[::-1].index(0)
    if (k > 1) != (l > 1):
        col_a, col_b = (k == 1), (l == 1)
        nrows = len(b) if col_a else len(a)
    else:
        col_a, col_b = len(a) >= len(b), len(b) >= len(a)
        nrows = len(b) if (col_a and not col_b) else len(a) if (col_b and not col_a) else len(a)
    always, maybe = 0.0, 0.0
    for run, leading in ((cols[:first], True), (cols[last + 1:], False)):
        if not run:
            continue
        code = run[0]              # 1 = gap in a, 2 = gap in b
        col_side = (code == 1 and col_a) or (code == 2 and col_b)
        row_side = (code == 1 and not col_a) or (code == 2 and not col_b)
        if col_side:
            L = len(run)
            c = _crossings(nrows, 0, L) if leading else _crossings(nrows, nrows - L, nrows)
            maybe += gpo + (c + 1) * tgpe
            if row_side is False and (col_a and col_b):
                pass
        else:
            always += gpo
    return always, maybe


def cols_of(ra, rb):
    return [0 if (x != "-" and y != "-") else (1 if x == "-" else 2) for x, y in zip(ra, rb)]


def check(case):
    a, b, kind = case["a"], case["b"], case["kind"]
    if not a or not b:
        return engine.discard("empty")
    if gen.expected_kind([a, b]) != kind:
        return engine.discard("kind of the pair is not determined by a C13 premise")
    setn = SET_FOR[(kind, case["type"])]
    k, l = case["k"], case["l"]
    if (k > 1 or l > 1):
        x, y = (a, b) if len(a) >= len(b) else (b, a)
        red = (lambda s: s.upper().replace("U", "T")) if kind == "dna" else __import__("props.c12", fromlist=["x"]).reduce_protein
        if dporacle.sellers(red(x), red(y)[:1024]) < 1:
            k = l = 1
    seqs = [a] * k + [b] * l if case["a_first"] else [b] * l + [a] * k
    cfg = {"type": case["type"], "threads": case["threads"], "gpo": case["pens"][0], "gpe": case["pens"][1], "tgpe": case["pens"][2]}
    try:
        names = ["s%d" % i for i in range(len(seqs))]
        r = kal.align_named(names, seqs, cfg, hook=(1, 0, 1))
    except kal.Failure as f:
        if f.ended.kind == "hang":
            return engine.discard("cpu-limit")
        return engine.violation({"what": "process failure", **f.detail()}, kind="crash")
    except kal.Rejected as e:
        return engine.violation({"what": "valid pair rejected: " + e.what, "info": e.info}, kind="status")
    # the oracle scores with the substitution matrix and penalties kalign reports to be in effect for this run (PARAMS
    # hook): C07 is about the dynamic programming; whether those are the documented values is C09's subject
    obs = r["run"].get("params")
    if not obs:
        return engine.violation({"what": "no PARAMS event: hook not active"}, kind="harness")
    gpo, gpe, tgpe, subm = obs["gpo"], obs["gpe"], obs["tgpe"], obs["subm"]
    base = params_model.SETS[setn]
    cert = dporacle.certify(a, b, kind, setn, gpo, gpe, tgpe, subm_flat=subm)
    if cert is None:
        return engine.discard("oracle: optimum without any aligned pair")
    exact = all(float(x * 2).is_integer() for x in (gpo, gpe, tgpe)) and all(float(v * 2).is_integer() for v in subm)
    need = max(len(a), len(b)) / 2000.0 + 0.01 + (0.0 if exact else 1e-4 * abs(cert["opt"]))
    cl = ["kind=" + kind, "set=" + setn, "explicit" if case["pens"][0] >= 0 else "defaults"]
    if max(len(a), len(b)) >= 500:
        cl.append("len>=500")
    if min(len(a), len(b)) >= 500:
        cl.append("minlen>=500(parallel)")
    if min(len(a), len(b)) >= 1000:
        cl.append("minlen>=1000(two parallel levels)")
    if min(cert["m_same"], cert["m_diff"]) <= need:
        return engine.discard("not certified (margin %s)" % ("<= need" if min(cert["m_same"], cert["m_diff"]) > 0 else "0: tie"), classes=cl)
    rows = r["rows"]
    arows = [row for row, s in zip(rows, seqs) if s is a or s == a]
    brows = [row for row, s in zip(rows, seqs) if not (s is a or s == a)] if a != b else rows[k:] if case["a_first"] else rows[:l]
    if a == b:
        arows = rows[:k] if case["a_first"] else rows[l:]
    kernels = sorted(set(e[4] for e in (r["run"].get("events") or []) if e[1] == 7))
    cl.append("kernels=%s" % ",".join({0: "seqseq", 1: "seqprof", 2: "profprof"}[x] for x in kernels))
    cl.append("groups=%dx%d" % (k, l))
    want_a, want_b = dporacle.rows_from_cols(a, b, cert["cols"])
    if len(set(arows)) != 1 or len(set(brows)) != 1:
        if case["pens"][0] >= 0 or case["pens"][1] >= 0 or case["pens"][2] >= 0:
            # under user penalties the copies of one sequence need not be aligned gap-free with each other (gap open 0 and
            # X:X <= 0 make a gapped alignment of two identical sequences optimal): the premise "each side is a group of
            # identical copies" (aligned as one) does not hold, nothing is claimed; under the defaults it is C12's claim
            return engine.discard("copies of one sequence aligned with gaps between them under user penalties (premise of the group form fails)", classes=cl)
        return engine.violation({"what": "identical copies received different rows", "a_rows": arows[:3], "b_rows": brows[:3]}, classes=cl)
    from vlib.oracle import strip_common_gap_columns
    got = strip_common_gap_columns([arows[0], brows[0]])
    if got[0] != want_a or got[1] != want_b:
        # F18 signature: kalign's own alignment K can be explained by the inconsistent charging of terminal gaps on the
        # column side (see DESIGN.md section 9): under the charging most favourable to K and least favourable to OPT, K is
        # not worse than OPT.
        s_opt = dporacle.score_alignment(want_a, want_b, kind, setn, gpo, gpe, tgpe, 0.0, subm_flat=subm)
        s_k = dporacle.score_alignment(got[0], got[1], kind, setn, gpo, gpe, tgpe, 0.0, subm_flat=subm)
        fid = None
        allow = 0.0
        if s_k is not None and s_opt is not None:
            alw_o, may_o = terminal_profile(a, b, cert["cols"], gpo, tgpe, k, l)
            alw_k, may_k = terminal_profile(a, b, cols_of(got[0], got[1]), gpo, tgpe, k, l)
            allow = may_o
            if may_o > 0 and (s_k - alw_k) + need >= (s_opt - alw_o - may_o):
                fid = "F18"
        return engine.violation({"what": "kalign's alignment differs from the certified unique optimum",
                                 "kalign": [g[:200] for g in got], "optimum": [want_a[:200], want_b[:200]],
                                 "opt_score": cert["opt"], "margin_same": cert["m_same"], "margin_diff": cert["m_diff"], "need": need,
                                 "params": [setn, gpo, gpe, tgpe], "groups": [k, l], "lens": [len(a), len(b)], "f18_allowance": allow}, classes=cl, finding=fid)
    has_gap = any(c != 0 for c in cert["cols"])
    if cert["junctions"]:
        cl.append("overhang")
    if has_gap:
        cl.append("gapped_opt")
    return engine.ok(a != b and has_gap, cl, {"a": a[:60], "b": b[:60], "lens": [len(a), len(b)], "params": [setn, gpo, gpe, tgpe],
                                              "groups": [k, l], "margin": min(cert["m_same"], cert["m_diff"]), "need": need,
                                              "opt": [want_a[:70], want_b[:70]]})


# ------------------------------------------------------------------ enumerated: overhangs x kernels

def extra(tier, seed, stats):
    """Terminal overhangs, enumerated: a shared core of 20 / 60 / 150 residues (5 % substitutions, one internal indel), an
    overhang of 3 / 10 / 40 / 120 residues at the start or the end of either sequence, every kernel (1x1, 1x2, 2x1, 2x2, 2x3,
    3x2), both kinds, the type's defaults and one set of user penalties with cheap terminal gaps: the same oracle as the
    generated cases (only certified unique optima are judged)."""
    from concurrent.futures import ThreadPoolExecutor
    cases_ = []
    rnd = random.Random(seed * 17 + 3)
    for kind, alpha, types in (("dna", gen.NUC, [0, 2]), ("protein", gen.AA, [3, 4])):
        for core_len in (20, 60, 150):
            for oh in (3, 10, 40, 120):
                for side in range(4):
                    core = "".join(rnd.choice(alpha) for _ in range(core_len))
                    c2 = list(core)
                    for _ in range(max(1, core_len // 20)):
                        c2[rnd.randrange(core_len)] = rnd.choice(alpha)
                    p = rnd.randrange(3, core_len - 3)
                    c2[p:p] = [rnd.choice(alpha) for _ in range(rnd.choice([1, 2, 4]))] if side % 2 else []
                    c2 = "".join(c2)
                    ext = "".join(rnd.choice(alpha) for _ in range(oh))
                    a, b = [(ext + core, c2), (core + ext, c2), (core, ext + c2), (core, c2 + ext)][side]
                    for (k, l) in ((1, 1), (1, 2), (2, 1), (2, 2), (2, 3), (3, 2)):
                        pens = [-1.0, -1.0, -1.0] if (k + l + side) % 2 else [6.0, 2.0, 0.5]
                        cases_.append({"a": a, "b": b, "kind": kind, "type": types[(k + l) % 2], "pens": pens, "k": k, "l": l, "threads": 1 + (k + l) % 3,
                                       "a_first": bool((k + side) % 2)})
    if tier == "quick":
        cases_ = cases_[::2]
    with ThreadPoolExecutor(max_workers=12) as ex:
        res = list(ex.map(check, cases_))
    out = []
    for c, r in zip(cases_, res):
        if r["status"] == "violation" and r.get("finding") and engine.known_active(r["finding"]):
            stats.excluded_known[r["finding"]] += 1
            stats.evaluations += 1
            continue
        stats.record(c, r)
        stats.classes["overhang_grid"] += 1
        if r["status"] == "violation":
            out.append({"case": c, "detail": r["detail"], "kind": r.get("kind")})
    return out
