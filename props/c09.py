"""C09 The scoring parameters used are exactly the ones the caller selected."""
import itertools
import os

from hypothesis import strategies as st

from vlib import engine, formats, gen, kal, oracle, params_model, runner

ID = "C09"
RULE = ("(a) aln_param_init enumerated exhaustively over 2 kinds x 6 type constants x 8 subsets of {gpo,gpe,tgpe} x 3 override "
        "value vectors against a model transcribed from README/aln_param.c (expected FAIL for protein types on nucleotides and "
        "nucleotide types on protein); (b) end to end: for every documented --type word (and no --type) x 8 override subsets, "
        "the aln_param in effect inside kalign_run - observed through the guarded PARAMS hook for the library and through "
        "KALIGN_VERIF_DUMP for the CLI binary - equals the model's, and mismatching words are rejected; 96 of the library cells are repeated through the array interface kalign(), and 84 as the second alignment of a process whose first one gave all three penalties (nothing of an earlier call may stay in effect); (c) Hypothesis: generated "
        "input x type x subset: run with the type's defaults given explicitly == default run, CLI word run == library constant "
        "run (rows identical); a case is discriminating (non-trivial) when a different parameter set changes the alignment of "
        "that input. Non-trivial/distinct = distinct grid cells + discriminating generated cases.")
ASSUMPTIONS = ["model tables in vlib/params_model.py are the documented parameter sets",
               "float32 representation: values compared with relative tolerance 1e-6"]
BUDGET = {"quick": dict(examples=150, workers=12, seconds=60), "thorough": dict(examples=420, workers=16, seconds=400)}

DNA_SET = (["n1", "n2", "n3"], ["ACGTACGTTGCA", "ACGTCGTTGCAA", "ACTTACGTGCA"])
PROT_SET = (["p1", "p2", "p3"], ["MKVLAAGIDEFWHY", "MKVLGGIDEFWHYR", "MKILAAGDEFWY"])
WORDS = [None, "dna", "internal", "rna", "protein", "divergent"]
WORD_TYPE = {None: 5, "dna": 0, "internal": 1, "rna": 2, "protein": 3, "divergent": 4}


def close(a, b):
    return abs(a - b) <= 1e-6 * max(1.0, abs(a), abs(b))


def cmp_params(got, exp):
    for k in ("gpo", "gpe", "tgpe"):
        if not close(got[k], exp[k]):
            return "%s = %r, expected %r" % (k, got[k], exp[k])
    sub = got["subm"]
    for i in range(23):
        for j in range(23):
            if not close(sub[i * 23 + j], exp["subm"][i][j]):
                return "subm[%d][%d] = %r, expected %r" % (i, j, sub[i * 23 + j], exp["subm"][i][j])
    return None


def finding_for(biotype, type_, word=None):
    if biotype == 1 and type_ == 4:
        return "F5"
    if word == "internal":
        return "F4"
    return None


# ------------------------------------------------------------------ generated leg (c)

@st.composite
def cases(draw, tier):
    ss = draw(gen.seqsets(max_n=20 if tier == "quick" else 60, max_len=150 if tier == "quick" else 500))
    if ss["kind"] is None:
        ss = draw(gen.seqsets(kind="dna", max_n=10, max_len=60))
    names = draw(gen.names_for(len(ss["seqs"]), long_names=False))
    types = gen.DNA_TYPES if ss["kind"] == "dna" else gen.PROT_TYPES
    return {"names": names, "seqs": ss["seqs"], "kind": ss["kind"], "type": draw(st.sampled_from(types)),
            "subset": draw(st.integers(0, 7)), "threads": draw(gen.threads), "leg": draw(st.sampled_from(["explicit", "cli"]))}


def strategy(tier):
    return cases(tier)


def check(case):
    if "grid" in case:
        return check_grid_case(case)
    names, seqs, t = case["names"], case["seqs"], case["type"]
    kind = gen.expected_kind(seqs)
    if kind is None or len(seqs) < 2:
        return engine.discard("kind not determined")
    bt = 1 if kind == "dna" else 0
    exp = params_model.expected(bt, t, -1, -1, -1)
    if exp is None:
        return engine.discard("type not admissible")
    cl = ["leg=" + case["leg"], "type=%d" % t, "subset=%d" % case["subset"]]
    base = {"type": t, "threads": case["threads"], "gpo": -1.0, "gpe": -1.0, "tgpe": -1.0}
    try:
        r0 = kal.align_named(names, seqs, base)
        if case["leg"] == "explicit":
            cfg = dict(base)
            for bit, k in ((1, "gpo"), (2, "gpe"), (4, "tgpe")):
                if case["subset"] & bit:
                    cfg[k] = exp[k]
            r1 = kal.align_named(names, seqs, cfg)
            rows1 = r1["rows"]
            what = "explicit defaults %s" % {k: cfg[k] for k in ("gpo", "gpe", "tgpe")}
        else:
            wd = runner.workdir()
            fp = wd.write(kal.fasta_bytes(names, seqs), ".fa")
            en, text = kal.run_cli_files([fp], base, fmt="fasta")
            if en.rc != 0 or text is None:
                return engine.violation({"what": "CLI rejected an admissible type", "type": t, "stderr": en.err[-300:]}, classes=cl, kind="status")
            n1, rows1 = formats.parse_any("fasta", text)
            what = "CLI --type %s" % params_model.TYPE_WORD.get(t)
        # discriminating? a different parameter set for the same kind
        other = {0: 2, 1: 0, 2: 0, 3: 4, 4: 3, 5: (0 if bt == 1 else 4)}[t]
        r2 = kal.align_named(names, seqs, dict(base, type=other))
    except kal.Failure as f:
        if f.ended.kind == "hang":
            return engine.discard("cpu-limit")
        return engine.violation({"what": "process failure", **f.detail()}, kind="crash")
    except kal.Rejected as e:
        return engine.violation({"what": "admissible configuration rejected: " + e.what, "info": e.info, "type": t}, classes=cl, kind="status")
    fid = "F4" if (case["leg"] == "cli" and t == 1) else None
    if rows1 != r0["rows"]:
        i = [k for k, (a, b) in enumerate(zip(rows1, r0["rows"])) if a != b][0]
        return engine.violation({"what": "%s gives a different alignment than the library default run of type %d" % (what, t),
                                 "row": i, "default": r0["rows"][i][:150], "other": rows1[i][:150]}, classes=cl, finding=fid)
    disc = r2["rows"] != r0["rows"]
    if disc:
        cl.append("discriminating")
    return engine.ok(disc, cl, {"leg": case["leg"], "type": t, "subset": case["subset"], "n": len(seqs), "seqs": [s[:40] for s in seqs[:2]],
                                "discriminating": disc})


# ------------------------------------------------------------------ enumerated legs (a), (b)

def check_grid_case(case):
    g = case["grid"]
    if g["leg"] == "init":
        pr = runner.run_probe(["param %d %d %r %r %r" % (g["biotype"], g["type"], g["gpo"], g["gpe"], g["tgpe"])])
        if pr.ended.bad or not pr.steps:
            return engine.violation({"what": "process failure", **pr.ended.brief()}, kind="crash")
        return judge_init(g, pr.steps[0])
    if g["leg"] == "lib":
        return run_lib_cell(g)
    return run_cli_cell(g)


def judge_init(g, s):
    exp = params_model.expected(g["biotype"], g["type"], g["gpo"], g["gpe"], g["tgpe"])
    fid = finding_for(g["biotype"], g["type"])
    if exp is None:
        if s["rc"] == 0:
            return engine.violation({"what": "type %d accepted for biotype %d (must be rejected)" % (g["type"], g["biotype"]), "grid": g}, finding=fid)
        return engine.ok(True, ["init_reject"], None, key="init:%r" % sorted(g.items()))
    if s["rc"] != 0:
        return engine.violation({"what": "admissible combination rejected", "grid": g}, kind="status")
    bad = cmp_params(s, exp)
    if bad:
        return engine.violation({"what": "aln_param_init: " + bad, "grid": g}, finding=fid)
    return engine.ok(True, ["init_ok"], None, key="init:%r" % sorted(g.items()))


def _pen_tokens(g):
    return "%r %r %r" % (float(g["gpo"]), float(g["gpe"]), float(g["tgpe"]))


def run_lib_cell(g):
    names, seqs = DNA_SET if g["biotype"] == 1 else PROT_SET
    wd = runner.workdir()
    fp = wd.write(kal.fasta_bytes(names, seqs), ".fa")
    pre = []
    if g.get("prev"):
        # an earlier alignment in the same process, same input and type, other penalties: nothing of it may remain in effect
        pv = g["prev"]
        pre = ["read 1 1 %s" % fp, "run 1 1 %d %r %r %r" % (g["type"], float(pv[0]), float(pv[1]), float(pv[2])), "free 1"]
    if g.get("route") == "arr":
        # the array interface kalign(): same parameters expected as through kalign_run
        sp = wd.write(runner.seqset_bytes(seqs), ".seqs")
        pr = runner.run_probe(["hook 0 0 1"] + pre + ["arr %s 1 %d %s" % (sp, g["type"], _pen_tokens(g))])
        at = 1 + len(pre)
    else:
        pr = runner.run_probe(["hook 0 0 1"] + pre + ["read 0 1 %s" % fp, "run 0 1 %d %s" % (g["type"], _pen_tokens(g)), "free 0"])
        at = 2 + len(pre)
    if pr.ended.bad or pr.steps is None or len(pr.steps) < at + 1:
        return engine.violation({"what": "process failure", **pr.ended.brief(), "grid": g}, kind="crash")
    s = pr.steps[at]
    exp = params_model.expected(g["biotype"], g["type"], g["gpo"], g["gpe"], g["tgpe"])
    fid = finding_for(g["biotype"], g["type"])
    if exp is None:
        if s["rc"] == 0:
            return engine.violation({"what": "kalign_run accepted type %d for biotype %d" % (g["type"], g["biotype"]), "grid": g}, finding=fid)
        return engine.ok(True, ["lib_reject"], None, key="lib:%r" % sorted(g.items(), key=str))
    if s["rc"] != 0 or not s.get("params"):
        return engine.violation({"what": "kalign_run rejected an admissible combination / no PARAMS event", "grid": g}, kind="status")
    bad = cmp_params(s["params"], exp)
    if bad:
        return engine.violation({"what": "kalign_run used " + bad + (" (after an earlier run with penalties %r)" % (g["prev"],) if g.get("prev") else ""), "grid": g}, finding=fid)
    return engine.ok(True, ["lib_ok"] + (["after_earlier_run"] if g.get("prev") else []), None, key="lib:%r" % sorted(g.items(), key=str))


def run_cli_cell(g):
    names, seqs = DNA_SET if g["biotype"] == 1 else PROT_SET
    wd = runner.workdir()
    fp = wd.write(kal.fasta_bytes(names, seqs), ".fa")
    dump = wd.path(".params")
    args = []
    if g["word"]:
        args += ["--type", g["word"]]
    for k in ("gpo", "gpe", "tgpe"):
        if g[k] >= 0:
            args += ["--" + k, repr(float(g[k]))]
    args += ["-n", "1", "-o", wd.path(".out"), fp]
    en = runner.run_cli(args, env={"KALIGN_VERIF_DUMP": dump})
    if en.bad:
        return engine.violation({"what": "process failure", **en.brief(), "grid": g}, kind="crash")
    t = WORD_TYPE[g["word"]]
    exp = params_model.expected(g["biotype"], t, g["gpo"], g["gpe"], g["tgpe"])
    fid = finding_for(g["biotype"], t, g["word"])
    if exp is None:
        if en.rc == 0:
            return engine.violation({"what": "CLI accepted --type %s for biotype %d" % (g["word"], g["biotype"]), "grid": g}, finding=fid)
        return engine.ok(True, ["cli_reject"], None, key="cli:%r" % sorted(g.items(), key=str))
    if en.rc != 0 or not os.path.exists(dump):
        return engine.violation({"what": "CLI rejected an admissible combination", "grid": g, "stderr": en.err[-300:]}, kind="status", finding=fid)
    with open(dump) as fh:
        ln = fh.read().split("\n")[0].split()
    got = {"gpo": float(ln[6]), "gpe": float(ln[8]), "tgpe": float(ln[10]), "subm": [float(x) for x in ln[12:12 + 529]]}
    if int(ln[4]) != t:
        return engine.violation({"what": "--type %s selected type constant %d, expected %d" % (g["word"], int(ln[4]), t), "grid": g}, finding=fid)
    bad = cmp_params(got, exp)
    if bad:
        return engine.violation({"what": "CLI used " + bad, "grid": g}, finding=fid)
    return engine.ok(True, ["cli_ok"], None, key="cli:%r" % sorted(g.items(), key=str))


VALS = [(0.0, 0.0, 0.0), (3.25, 0.5, 7.75), (100.5, 41.5, 0.25)]   # every overridden value once fractional, once zero


def extra(tier, seed, stats):
    out = []
    cells = []
    for bt, t, sub, v in itertools.product((0, 1), range(6), range(8), VALS):
        cells.append({"leg": "init", "biotype": bt, "type": t, "gpo": v[0] if sub & 1 else -1.0, "gpe": v[1] if sub & 2 else -1.0,
                      "tgpe": v[2] if sub & 4 else -1.0})
    # init grid in one probe process
    lines = ["param %d %d %r %r %r" % (c["biotype"], c["type"], c["gpo"], c["gpe"], c["tgpe"]) for c in cells]
    pr = runner.run_probe(lines)
    if pr.ended.bad or pr.steps is None or len(pr.steps) != len(lines):
        out.append({"case": {"grid": cells[0]}, "detail": {"what": "process failure in the aln_param_init grid", **pr.ended.brief()}, "kind": "crash"})
    else:
        for c, s in zip(cells, pr.steps):
            r = judge_init(c, s)
            _account(stats, {"grid": c}, r, out)
    for bt, t, sub, v in itertools.product((0, 1), range(6), range(8), VALS[1:]):
        c = {"leg": "lib", "biotype": bt, "type": t, "gpo": v[0] if sub & 1 else -1.0, "gpe": v[1] if sub & 2 else -1.0,
             "tgpe": v[2] if sub & 4 else -1.0}
        _account(stats, {"grid": c}, run_lib_cell(c), out)
        if v is VALS[1]:
            _account(stats, {"grid": dict(c, route="arr")}, run_lib_cell(dict(c, route="arr")), out)
        if v is VALS[1] and sub != 7:
            # the same cell as the second alignment of a process whose first one gave all three penalties
            _account(stats, {"grid": dict(c, prev=[55.5, 11.25, 3.5])}, run_lib_cell(dict(c, prev=[55.5, 11.25, 3.5])), out)
    for bt, w, sub, v in itertools.product((0, 1), WORDS, range(8), VALS[1:]):
        c = {"leg": "cli", "biotype": bt, "word": w, "gpo": v[0] if sub & 1 else -1.0, "gpe": v[1] if sub & 2 else -1.0,
             "tgpe": v[2] if sub & 4 else -1.0}
        _account(stats, {"grid": c}, run_cli_cell(c), out)
    stats.extra["exhaustive_grid_cells"] = len(cells) + 192 + 96 + 84 + 192
    return out


def _account(stats, case, r, out):
    if r["status"] == "violation" and r.get("finding") and engine.known_active(r["finding"]):
        stats.excluded_known[r["finding"]] += 1
        stats.evaluations += 1
        return
    stats.record(case, r)
    if r["status"] == "violation":
        out.append({"case": case, "detail": r["detail"], "kind": r.get("kind")})
