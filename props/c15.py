"""C15 Written alignment files are self-consistent and correctly labelled."""
from hypothesis import strategies as st

from vlib import alngen, engine, formats, gen, kal, oracle, runner

ID = "C15"
RULE = ("Alignments as in C06 (kalign results on generated protein/nucleotide sets, and synthetic alignments of exact widths "
        "1, 2, 7, 59/60/61, 119/120/121, 179/180/181, 240, 300, 1..200 with names of 1..200 characters) are written by kalign "
        "in fasta, clu and msf and parsed by strict independent readers. FASTA: every record line but the last is exactly 60 "
        "columns; Clustal: header line, every block lists every sequence once in order, full blocks of 60, equal widths; MSF: "
        "!!AA/!!NA line and Type: P/N agree with the kind, 'MSF: <len>' and every 'Len:' equal the true length, every per-row "
        "'Check:' equals my GCG checksum of the row as written, '//' present, blocks as for Clustal; parsed rows equal "
        "kalign's own rows. extra(): two threads writing two objects to two files at the same time (3 x 4 format pairs x 12 rounds, every file judged); enumerated sweeps (row counts, widths, name lengths, output file name lengths) and alignments of 2.3 million columns (thorough: 0.9..5 million, both kinds) read, finalised and written on the un-sanitised build (arithmetic that is only wrong at extreme but legal sizes). Non-trivial = width > 60 and >= 1 gap in row 0; distinct by hash of the case.")
ASSUMPTIONS = ["the MSF header's total Check is recorded but not judged (the property names the per-row values)",
               "molecule type is judged only when a C13 premise determines the kind of the residues"]
BUDGET = {"quick": dict(examples=170, workers=12, seconds=60), "thorough": dict(examples=1300, workers=16, seconds=600)}


@st.composite
def cases(draw, tier):
    big = tier == "thorough"
    src = draw(st.one_of(alngen.synthetic(max_n=30 if not big else 80), alngen.synthetic(max_n=8),
                         alngen.to_align(max_n=25 if not big else 70, max_len=200 if not big else 600)))
    # the MSF header embeds the output file's base name: its length is part of the configuration
    if draw(st.integers(0, 7)) == 0:
        # a FASTA header longer than the 256-character name column of the block formats: those formats carry its first
        # 256 characters, consistently in the MSF header and in every block
        k = draw(st.integers(0, len(src["names"]) - 1))
        L = draw(st.sampled_from([256, 257, 258, 260, 261, 300, 400]))
        src = dict(src, names=list(src["names"]))
        src["names"][k] = (src["names"][k] + "_" + "h" * 400)[:L]
        if len(set(n[:255] for n in src["names"])) != len(src["names"]):
            src["names"][k] = ("%d" % k + src["names"][k])[:L]
    return {"src": src, "outname_len": draw(st.sampled_from([0, 0, 0, 0, 60, 150, 185, 190, 193, 195, 200, 230, 250])),
            # records without residues in the input that kalign aligns (it drops them): positions among the other records
            "empties": draw(st.lists(st.integers(0, len(src["names"])), min_size=1, max_size=3)) if draw(st.integers(0, 3)) == 0 else []}


def strategy(tier):
    return cases(tier)


def judge_file(fmt, text, names, rows, kind):
    """-> None or description"""
    L = len(rows[0])
    if fmt != "fasta":
        names = [n[:256] for n in names]        # MSA_NAME_LEN: what the block formats can carry of a name
    try:
        if fmt == "fasta":
            recs = formats.parse_fasta(text, strict_wrap=60)
            pn, pr = [r[0] for r in recs], [r[1] for r in recs]
        elif fmt == "clu":
            r = formats.parse_clustal(text)
            pn, pr = r["names"], r["rows"]
        else:
            r = formats.parse_msf(text)
            pn, pr = r["names"], r["rows"]
            if kind is not None:
                want = "P" if kind == "protein" else "N"
                if r["kind_line"] != want:
                    return "MSF first line labels the alignment %s but the sequences are %s" % ("!!AA" if r["kind_line"] == "P" else "!!NA", kind)
                if r["hdr"]["type"] != want:
                    return "MSF 'Type: %s' but the sequences are %s" % (r["hdr"]["type"], kind)
            if r["hdr"]["len"] != L:
                return "MSF header says 'MSF: %d' but the alignment has %d columns" % (r["hdr"]["len"], L)
            if len(r["entries"]) != len(rows):
                return "MSF lists %d Name: lines for %d rows" % (len(r["entries"]), len(rows))
            for e, nm, row in zip(r["entries"], names, rows):
                if e["name"] != nm:
                    return "MSF Name: %r, expected %r" % (e["name"][:40], nm[:40])
                if e["len"] != L:
                    return "MSF 'Len: %d' for %r but the alignment has %d columns" % (e["len"], nm[:30], L)
                # GCG convention: gaps are '.' in the checksum; accept either spelling of the gap character
                ok = {formats.gcg_checksum(row), formats.gcg_checksum(row.replace("-", "."))}
                if e["check"] not in ok:
                    return "MSF 'Check: %d' for %r but the GCG checksum of the written row is %d" % (e["check"], nm[:30], formats.gcg_checksum(row))
    except formats.FormatError as ex:
        return "%s file is malformed: %s" % (fmt, ex)
    if pn != names:
        return "%s file lists names %r, expected %r" % (fmt, pn[:4], names[:4])
    if pr != rows:
        i = [k for k, (a, b) in enumerate(zip(pr, rows)) if a != b]
        return "%s file row %s differs from kalign's own row" % (fmt, i[:1])
    return None


def giant_rows(g):
    """one full row of g['width'] residues and two rows that are gaps except for a window (pure function of g)"""
    import random
    rnd = random.Random(g["seed"])
    alpha = gen.NUC if g["kind"] == "dna" else gen.AA
    W = g["width"]
    full = "".join(rnd.choices(alpha, k=W))
    rows = [full]
    for k in range(2):
        a = rnd.randrange(0, W - 400)
        b = a + rnd.randrange(100, 400)
        rows.append("-" * a + full[a:b] + "-" * (W - b))
    if g.get("mostly_full"):
        rows[1] = full[:W - 7] + "-" * 7
    return ["giant", "s1", "s2"], rows


def check_giant(case):
    """alignments of 10^6 columns and more (arithmetic that is only wrong for extreme but legal sizes): read, finalise,
    write in all formats on the un-sanitised build, no dump"""
    g = case["giant"]
    names, rows = giant_rows(g)
    wd = runner.workdir()
    fp = wd.write(formats.write_fasta(names, rows, width=0).encode("latin-1"), ".afa")
    outs = {fmt: wd.path("." + fmt) for fmt in ("fasta", "clu", "msf")}
    lines = ["read 0 1 %s" % fp, "finalise 0"] + ["write 0 %s %s" % (fmt, outs[fmt]) for fmt in ("fasta", "clu", "msf")] + ["free 0"]
    pr = runner.run_probe(lines, variant="plain", cpu=600)
    if pr.ended.bad or pr.ended.rc != 0 or pr.steps is None or len(pr.steps) != len(lines):
        if pr.ended.kind == "hang":
            return engine.discard("cpu-limit")
        return engine.violation({"what": "process failure", **pr.ended.brief()}, kind="crash")
    if pr.steps[0]["rc"] != 0 or pr.steps[1]["rc"] != 0:
        return engine.discard("source alignment could not be produced (C01/C06 territory)")
    cl = ["source=synthetic", "kind=%s" % g["kind"], "width>=10^6"]
    for k, fmt in enumerate(("fasta", "clu", "msf")):
        if pr.steps[2 + k]["rc"] != 0:
            return engine.violation({"what": "write(%s) failed" % fmt, "width": g["width"]}, classes=cl, kind="status")
        with open(outs[fmt], "rb") as fh:
            text = fh.read().decode("latin-1")
        bad = judge_file(fmt, text, names, rows, g["kind"])
        if bad:
            return engine.violation({"what": bad, "width": g["width"], "nrows": 3, "head": text[:400]}, classes=cl)
    return engine.ok(True, cl, {"width": g["width"], "kind": g["kind"]}, key="giant:%d:%s" % (g["width"], g["kind"]))


def check_history(case):
    """the object has a history when it is written: a first file, a large file of the other kind that is refused, a second file
    of the right kind, alignment, the three writers.  The files must describe the rows that were aligned (molecule type
    included), whatever was offered to the object before."""
    h = case["hist"]
    rnd_seed, kind = h["seed"], h["kind"]
    alpha, other = (gen.NUC, gen.AA) if kind == "dna" else (gen.AA, gen.NUC)
    fam = gen.expand_family(rnd_seed, alpha, 7, 150, 0.1, 0.03, 0.0)
    big = gen.expand_random(rnd_seed + 1, other, h.get("nbig", 8), 300, 500)
    names = ["s%d" % i for i in range(len(fam))]
    wd = runner.workdir()
    f1 = wd.write(kal.fasta_bytes(names[:3], fam[:3]), ".fa")
    fx = wd.write(kal.fasta_bytes(["x%d" % i for i in range(len(big))], big), ".fa")
    f2 = wd.write(kal.fasta_bytes(names[3:], fam[3:]), ".fa")
    outs = {fmt: wd.path("." + fmt) for fmt in ("fasta", "clu", "msf")}
    lines = ["read 0 1 %s" % f1, "read 0 1 %s" % fx, "read 0 1 %s" % f2, "run 0 1 5 -1 -1 -1", "dump 0"] + \
            ["write 0 %s %s" % (fmt, outs[fmt]) for fmt in ("fasta", "clu", "msf")] + ["free 0"]
    pr = runner.run_probe(lines)
    if pr.ended.bad or pr.ended.rc != 0 or pr.steps is None or len(pr.steps) != len(lines):
        return engine.violation({"what": "process failure", **pr.ended.brief()}, kind="crash")
    st_ = pr.steps
    cl = ["source=kalign", "kind=%s" % kind, "object_history"]
    if st_[0]["rc"] != 0 or st_[2]["rc"] != 0 or st_[3]["rc"] != 0 or st_[4].get("msa") is None:
        return engine.discard("source alignment could not be produced (C01/C06 territory)", classes=cl)
    if st_[1]["rc"] == 0:
        return engine.discard("the file of the other kind was not refused (C13 territory)", classes=cl)
    tn, tr = kal.msa_rows(st_[4]["msa"])
    if tn != names:
        return engine.discard("source names differ (C01/C06 territory)", classes=cl)
    for k, fmt in enumerate(("fasta", "clu", "msf")):
        if st_[5 + k]["rc"] != 0:
            return engine.violation({"what": "write(%s) failed" % fmt}, classes=cl, kind="status")
        with open(outs[fmt], "rb") as fh:
            text = fh.read().decode("latin-1")
        bad = judge_file(fmt, text, tn, tr, kind)
        if bad:
            return engine.violation({"what": bad + " (after a refused file of the other kind)", "head": text[:300]}, classes=cl)
    return engine.ok(True, cl, {"kind": kind, "rows": len(tr), "width": len(tr[0])}, key="hist:%s:%d" % (kind, rnd_seed))


def check_concurrent(case):
    """two application threads, each writing its own aligned object to its own file, at the same time (30 rounds per format
    pair): both files must be what a lone writer produces"""
    h = case["conc"]
    fams = [(gen.expand_family(h["seed"], gen.NUC, 6, 130, 0.1, 0.03, 0.0), "dna"), (gen.expand_family(h["seed"] + 1, gen.AA, 5, 140, 0.15, 0.03, 0.0), "protein")]
    wd = runner.workdir()
    lines, outs = [], []
    for k, (fam, kind) in enumerate(fams):
        fp = wd.write(kal.fasta_bytes(["%s%d" % (kind[0], i) for i in range(len(fam))], fam), ".fa")
        lines += ["read %d 1 %s" % (k, fp), "run %d 1 5 -1 -1 -1" % k, "dump %d" % k]
    pairs = [("fasta", "msf"), ("msf", "clu"), ("clu", "fasta"), ("msf", "msf")]
    for i, (fa, fb) in enumerate(pairs):
        oa, ob = wd.path(".a%d.%s" % (i, fa)), wd.path(".b%d.%s" % (i, fb))
        outs.append((fa, oa, fb, ob))
        lines.append("pwrite %d 0 %s %s 1 %s %s" % (h.get("rounds", 30), fa, oa, fb, ob))
    lines += ["free 0", "free 1"]
    pr = runner.run_probe(lines, variant=h.get("variant", "plain"))
    cl = ["source=kalign", "concurrent_writers"]
    if pr.ended.bad or pr.ended.rc != 0 or pr.steps is None or len(pr.steps) != len(lines):
        return engine.violation({"what": "process failure", **pr.ended.brief()}, classes=cl, kind="crash")
    st_ = pr.steps
    if any(st_[i]["rc"] != 0 for i in (0, 1, 3, 4)) or st_[2].get("msa") is None or st_[5].get("msa") is None:
        return engine.discard("source alignment could not be produced (C01/C06 territory)", classes=cl)
    rows = [kal.msa_rows(st_[2]["msa"]), kal.msa_rows(st_[5]["msa"])]
    for i, (fa, oa, fb, ob) in enumerate(outs):
        if st_[6 + i]["rc"] != 0:
            return engine.violation({"what": "a concurrent write failed"}, classes=cl, kind="status")
        for who, (fmt, path) in enumerate(((fa, oa), (fb, ob))):
            for rd in range(h.get("rounds", 30)):
                with open("%s.%d" % (path, rd), "rb") as fh:
                    text = fh.read().decode("latin-1")
                bad = judge_file(fmt, text, rows[who][0], rows[who][1], fams[who][1])
                if bad:
                    return engine.violation({"what": "written while another thread was writing another object (round %d): %s" % (rd, bad), "head": text[:200]}, classes=cl)
    return engine.ok(True, cl, {"pairs": len(pairs)}, key="conc:%d" % h["seed"])


def check(case):
    if case.get("giant"):
        return check_giant(case)
    if case.get("conc"):
        return check_concurrent(case)
    if case.get("hist"):
        return check_history(case)
    src = case["src"]
    wd = runner.workdir()
    if src["source"] == "synthetic":
        names, rows = src["names"], src["rows"]
        fp = wd.write(formats.write_fasta(names, rows, width=60).encode("latin-1"), ".afa")
        lines = ["read 0 1 %s" % fp, "finalise 0", "dump 0"]
    else:
        names = src["names"]
        in_names, in_seqs = list(names), list(src["seqs"])
        for k, pos in enumerate(sorted(case.get("empties") or [], reverse=True)):
            in_names.insert(min(pos, len(in_names)), "empty_record_%d" % k)
            in_seqs.insert(min(pos, len(in_seqs)), "")
        fp = wd.write(kal.fasta_bytes(in_names, in_seqs), ".fa")
        lines = ["read 0 1 %s" % fp, "run 0 %d %d -1 -1 -1" % (src["threads"], src["type"]), "dump 0"]
    outs = {}
    import os
    for fmt in ("fasta", "clu", "msf"):
        outs[fmt] = wd.path("." + fmt)
        nl = case.get("outname_len", 0)
        if nl:
            base = os.path.basename(outs[fmt])
            outs[fmt] = os.path.join(os.path.dirname(outs[fmt]), ("o" * nl + base)[-max(nl, len(base)):][:250])
        lines.append("write 0 %s %s" % (fmt, outs[fmt]))
    lines.append("free 0")
    pr = runner.run_probe(lines)
    if pr.ended.bad or pr.ended.rc != 0 or pr.steps is None or len(pr.steps) != len(lines):
        if pr.ended.kind == "hang":
            return engine.discard("cpu-limit")
        return engine.violation({"what": "process failure", **pr.ended.brief()}, kind="crash")
    s = pr.steps
    if s[0]["rc"] != 0 or s[1]["rc"] != 0 or s[2].get("msa") is None:
        return engine.discard("source alignment could not be produced (C01/C06 territory)")
    m = s[2]["msa"]
    if m["aligned"] != 3 or m["alnlen"] <= 0:
        return engine.discard("not a finalised alignment (gap-free input)")
    tn, tr = kal.msa_rows(m)
    if tn != names:
        return engine.discard("source names differ (C01/C06 territory)")
    kind = gen.expected_kind(tr)
    L = len(tr[0])
    cl = ["source=" + src["source"], "kind=%s" % kind]
    if case.get("empties") and src["source"] != "synthetic":
        cl.append("empty_input_records")
    if L % 60 == 0:
        cl.append("width%60==0")
    if L > 60:
        cl.append("width>60")
    if max(len(x) for x in tn) > 60:
        cl.append("name>60")
    if max(len(x) for x in tn) > 256:
        cl.append("name>256")
    if case.get("outname_len", 0) >= 185:
        cl.append("long_output_file_name")
    for k, fmt in enumerate(("fasta", "clu", "msf")):
        if s[3 + k]["rc"] != 0:
            return engine.violation({"what": "write(%s) failed" % fmt}, classes=cl, kind="status")
        with open(outs[fmt], "rb") as fh:
            text = fh.read().decode("latin-1")
        bad = judge_file(fmt, text, tn, tr, kind)
        if bad:
            fid = None
            if fmt == "msf" and ("MSF header says" in bad or "'Len:" in bad or "'Check:" in bad or "labels the alignment" in bad or "'Type:" in bad):
                fid = "F8"
            return engine.violation({"what": bad, "width": L, "nrows": len(tr), "names": tn[:2], "rows": [r[:80] for r in tr[:2]],
                                     "head": text[:400]}, classes=cl, finding=fid)
    nt = L > 60 and "-" in tr[0]
    return engine.ok(nt, cl, {"source": src["source"], "width": L, "names": tn[:2], "rows": [r[:70] for r in tr[:2]], "kind": kind})


# ------------------------------------------------------------------ enumerated size sweep (exact buffer-growth edges)

def _sweep_items(tier):
    rows = list(range(2, 401)) + list(range(500, 525)) + list(range(1000, 1040)) if tier == "quick" else list(range(2, 2201))
    return [("outname", k, 0) for k in range(20, 251)] + [(n, 2, 2) for n in rows] + [(3, w, 2) for w in list(range(1, 261)) + list(range(505, 531)) + list(range(1020, 1045))] + [(3, 70, nl) for nl in range(1, 341)] + \
           [(n, 61, 2) for n in (16, 17, 18, 340, 341, 342, 510, 511, 512, 513)]


def _sweep_case(item):
    if item[0] == "outname":
        rows = ["MKVL-DEFHIW" * 7, "MKILADEF-IW" * 7, "MRVLADEFHI-" * 7]
        return {"src": {"names": ["p1", "p2", "p3"], "rows": rows, "source": "synthetic"}, "outname_len": item[1]}
    n, w, nl = item
    rows = []
    for i in range(n):
        r = ["ACGT"[(i + c) % 4] for c in range(w)]
        if w > 1:
            r[i % w] = "-"
        rows.append("".join(r))
    if w == 1:
        rows = ["A-" if i % 2 else "-A" for i in range(n)]
    if w > 300:
        # around the 512-residue increments of the row buffers: a full row, a row whose last residue (number w-5) is followed
        # by a gap run, a row that starts with a gap run
        full = "".join("ACGT"[(c * 7 + c // 3) % 4] for c in range(w))
        rows = [full, full[:w - 5] + "-----", "---" + full[3:]][:n] + [full] * max(0, n - 3)
    names = [("s%d_" % i + "n" * nl)[:max(nl, len("s%d" % i))] for i in range(n)]
    return {"src": {"names": names, "rows": rows, "source": "synthetic"}, "chain": ["fasta", "msf", "clu"][(n + w + nl) % 3:] + ["clu"]}


def extra(tier, seed, stats):
    from concurrent.futures import ThreadPoolExecutor
    out = []
    items = _sweep_items(tier)
    cases_ = [_sweep_case(it) for it in items]
    with ThreadPoolExecutor(max_workers=12) as ex:
        res = list(ex.map(check, cases_))
    for it, c, r in zip(items, cases_, res):
        stats.evaluations += 1
        stats.classes["sweep_items"] += 1
        if r["status"] == "violation":
            out.append({"case": c, "detail": dict(r["detail"], sweep_item=list(it)), "kind": r.get("kind")})
        elif r.get("nontrivial"):
            stats.nontrivial.add("sweep:%s:%s:%s" % tuple(it))
    # empty records in the input that kalign aligns, at every position (3 blocks of 60 columns)
    import random as _r
    rnd = _r.Random(seed + 3)
    fam = gen.expand_family(rnd.randrange(2 ** 32), gen.AA, 5, 140, 0.15, 0.03, 0.0)
    for kind_fam in (fam, gen.expand_family(rnd.randrange(2 ** 32), gen.NUC, 6, 130, 0.1, 0.03, 0.0)):
        n = len(kind_fam)
        for empties in [[p] for p in range(n + 1)] + [[0, n // 2], [1, 1, n], [0, 0, 0]]:
            c = {"src": {"names": ["seq%c" % (65 + i) for i in range(n)], "seqs": kind_fam, "type": 5, "threads": 1, "source": "kalign"},
                 "outname_len": 0, "empties": empties}
            r = check(c)
            stats.record(c, r)
            stats.classes["empty_records_enumerated"] += 1
            if r["status"] == "violation":
                out.append({"case": c, "detail": r["detail"], "kind": r.get("kind")})
    # rows whose GCG checksum sits on the edges of its range (0, 1, 9999): constructed by search over the last residues
    import random as _r2
    rnd2 = _r2.Random(seed + 41)
    for target in (0, 0, 1, 9999, 9998, 5000):
        row0 = None
        for _try in range(600):
            w = rnd2.randint(61, 130)
            pre = "".join(rnd2.choice(gen.AA) for _ in range(w - 2))
            hit = [pre + a + b for a in gen.AA for b in gen.AA if formats.gcg_checksum(pre + a + b) == target]
            if hit:
                row0 = rnd2.choice(hit)
                break
        if row0 is None:
            continue
        other = list(row0)
        for pos in rnd2.sample(range(w), 6):
            other[pos] = "-"
        rows_c = [row0, "".join(other), row0[:w - 3] + "---"]
        c = {"src": {"names": ["zero", "gapped", "short"], "rows": rows_c, "source": "synthetic"}, "outname_len": 0, "empties": []}
        r = check(c)
        stats.record(c, r)
        stats.classes["checksum_edge_rows"] += 1
        if r["status"] == "violation":
            out.append({"case": c, "detail": r["detail"], "kind": r.get("kind")})
    for i in range(3 if tier == "quick" else 12):
        c = {"conc": {"seed": seed * 19 + i, "rounds": 12}}
        r = check_concurrent(c)
        stats.record(c, r)
        if r["status"] == "violation":
            out.append({"case": c, "detail": r["detail"], "kind": r.get("kind")})
    for i, kind in enumerate(("dna", "protein", "dna", "protein")):
        c = {"hist": {"seed": seed * 11 + i, "kind": kind, "nbig": 8 if i < 2 else 30}}
        r = check_history(c)
        stats.record(c, r)
        if r["status"] == "violation":
            out.append({"case": c, "detail": r["detail"], "kind": r.get("kind")})
    widths = [2300000] if tier == "quick" else [900000, 1700000, 2300000, 3400000, 5000000]
    for i, W in enumerate(widths):
        for kind in (("protein",) if tier == "quick" else ("protein", "dna")):
            c = {"giant": {"seed": seed * 31 + i, "width": W, "kind": kind, "mostly_full": i % 2 == 1}}
            r = check_giant(c)
            stats.record(c, r)
            if r["status"] == "violation":
                out.append({"case": c, "detail": r["detail"], "kind": r.get("kind")})
    stats.extra["sweep"] = "every row count %s (width 2), every width 1..260, 505..530, 1020..1044 (3 rows), every name length 1..340, every output file name length 20..250 for a protein alignment (exhaustive over those ranges)" % ("2..400, 500..524, 1000..1039" if tier == "quick" else "2..2200")
    return out
