"""C16 A library call's result does not depend on the calls made before it (stateful, model = fresh process)."""
import random
import re

from hypothesis import strategies as st

from vlib import engine, formats, gen, kal, present, runner

ID = "C16"
RULE = ("A program is built from 3..6 units over a small pool of generated inputs/configurations: (A) kalign() call; (F) "
        "kalign_read_input of 1..3 files (any readable format) -> kalign_run -> dump -> kalign_write_msa in 1..3 formats -> "
        "kalign_free_msa (a quarter of these align the object twice - the second result must equal the first - and some try to write before aligning, which must fail cleanly; a fifth call kalign_check_msa / reformat_settings_msa in between; a sixth first make a run that is rejected, a sixth append their last file only after a first alignment, a sixth offer the object a large file of the other kind (refused) after their first file - the fresh-process reference of those units is the plain read-all, align-once sequence); (C) two alignments read into two objects -> kalign_msa_compare -> free both; (R) a run that must be "
        "rejected (type/kind mismatch) -> free; (X) reads that add nothing (directory, missing / empty / blank / binary file) -> free. The steps of all units are interleaved by a drawn merge order (several msa "
        "objects alive at once) with 'scribble' steps (malloc/fill/free of drawn sizes and byte patterns: the application's own "
        "heap traffic) in between; validity by construction. The whole program runs in one ASan+UBSan+LSan probe process. "
        "Oracle: every unit is also executed alone in a fresh process; return codes, dumped names/rows, written files (MSF "
        "date/file name normalised) and scores must be equal; LeakSanitizer must be silent when the program ends after the "
        "final free, and on the un-sanitised build an interposed malloc/free accounting must show that, after a warm-up unit, the program leaves no more than 2 KiB / 8 blocks allocated beyond what was allocated before it (memory parked behind static pointers is invisible to LeakSanitizer); in that second run (system allocator, which hands freed blocks out again in a different order - the sanitizer's never does) every unit must again give the result it gives alone. Inputs include records that share a name, 'tie' families (equal lengths, equal names) and, one in eight, 100..170 sequences of 10..300 residues (k-means guide tree; star or tree-shaped family) with 0..2 long outliers of skewed composition. Non-trivial = >= 3 units, >= 2 distinct inputs or configurations and >= 1 interleaving (a step of one "
        "unit between two steps of another); distinct by hash of the program.")
ASSUMPTIONS = ["libgomp's thread pool is reachable at exit and therefore not reported by LeakSanitizer",
               "inputs are valid for the calls made on them except in the deliberately rejected unit"]
BUDGET = {"quick": dict(examples=150, workers=10, seconds=80), "thorough": dict(examples=400, workers=14, seconds=840)}

_MSFHDR = re.compile(r"^ \S+  MSF: (\d+)  Type: (\S)  .*  Check: (\d+)  \.\.$", re.M)


def norm_file(fmt, text):
    if text is None:
        return None
    if fmt == "msf":
        return _MSFHDR.sub(lambda m: " FILE  MSF: %s  Type: %s  DATE  Check: %s  .." % (m.group(1), m.group(2), m.group(3)), text)
    return text


def tie_family(seed, alpha, n, L):
    """n sequences of one length L: a random ancestor with, per member, 1..2 single-residue deletions each paired with an
    insertion elsewhere and a few substitutions (co-optimal alignments are common, so tie-breaks decide)"""
    rnd = random.Random(seed)
    anc = [rnd.choice(alpha) for _ in range(L)]
    out = []
    for _ in range(n):
        t = list(anc)
        for _k in range(rnd.randint(1, 2)):
            if len(t) > 2:
                del t[rnd.randrange(len(t))]
                t.insert(rnd.randrange(len(t) + 1), rnd.choice(alpha))
        for _k in range(rnd.randint(0, 2)):
            t[rnd.randrange(len(t))] = rnd.choice(alpha)
        out.append("".join(t))
    return out


@st.composite
def inputs(draw):
    if draw(st.integers(0, 5)) == 0:
        # every tie the library has to break: equal lengths and equal (or only two different) names
        k, alpha = draw(gen.alphabets())
        n = draw(st.integers(2, 7))
        seqs = tie_family(draw(st.integers(0, 2 ** 32 - 1)), alpha[:4] if k == "dna" else alpha[:20], n, draw(st.integers(6, 60)))
        nm = draw(st.sampled_from(["x", "orgA_copy", "1"]))
        two = draw(st.booleans())
        names = [nm if not (two and i % 2) else nm + "b" for i in range(n)]
        kind = gen.expected_kind(seqs)
        if kind is not None:
            return {"names": names, "seqs": seqs, "kind": kind}
    if draw(st.integers(0, 7)) == 0:
        # enough sequences for the k-means guide tree (>= 100): a tight family, optionally with one or two outliers that a
        # split isolates
        k, alpha = draw(gen.alphabets())
        n = draw(st.integers(100, 170))
        L = draw(st.sampled_from([10, 24, 60, 150, 150, 300]))
        # a star (every member mutated from the ancestor: no structure for a split to follow) or a tree-shaped family
        fam = gen.expand_family(draw(st.integers(0, 2 ** 32 - 1)), alpha, n, L, draw(st.sampled_from([0.02, 0.03, 0.1])), 0.01, 0.0,
                                tree=draw(st.booleans()))
        for _ in range(draw(st.integers(0, 2))):
            # outliers: unrelated, longer, of skewed composition
            few = "".join(draw(st.lists(st.sampled_from(sorted(set(alpha))), min_size=2, max_size=4)))
            fam.insert(draw(st.integers(0, len(fam))), gen.expand_random(draw(st.integers(0, 2 ** 32 - 1)), few, 1, 2 * L + 20, 2 * L + 20)[0])
        kind = gen.expected_kind(fam)
        if kind is not None:
            return {"names": ["m%d" % i for i in range(len(fam))], "seqs": fam, "kind": kind}
    ss = draw(gen.seqsets(max_n=14, max_len=90))
    if ss["kind"] is None:
        ss = draw(gen.seqsets(kind="dna", max_n=8, max_len=40))
    seqs = list(ss["seqs"])
    if draw(st.integers(0, 3)) == 0:
        # empty records are legal input (kalign drops them): a few, or more than there are non-empty ones
        k = draw(st.sampled_from([1, 2, len(seqs), len(seqs) + 3]))
        for _ in range(k):
            seqs.insert(draw(st.integers(0, len(seqs))), "")
    names = draw(gen.names_for(len(seqs), max_len=16, long_names=False))
    if len(seqs) >= 2 and draw(st.integers(0, 3)) == 0:
        # records that share a name (files may contain them), some of them also of equal length with different residues:
        # nothing but the input may break such ties
        for _ in range(draw(st.integers(1, 3))):
            i = draw(st.integers(0, len(seqs) - 1))
            j = draw(st.integers(0, len(seqs) - 1))
            if i == j or not seqs[i]:
                continue
            names[j] = names[i]
            if draw(st.booleans()):
                rnd = random.Random(draw(st.integers(0, 2 ** 16)))
                alpha = sorted(set("".join(seqs))) or ["A"]
                t = list(seqs[i])
                for _k in range(1 + len(t) // 8):
                    t[rnd.randrange(len(t))] = rnd.choice(alpha)
                old = seqs[j]
                seqs[j] = "".join(t)
                if gen.expected_kind(seqs) != ss["kind"]:
                    seqs[j] = old
    return {"names": names, "seqs": seqs, "kind": ss["kind"]}


@st.composite
def unit(draw, pool):
    kind = draw(st.sampled_from(["A", "A", "F", "F", "F", "F", "C", "C", "R", "R", "X"]))
    inp = draw(st.integers(0, len(pool) - 1))
    k = pool[inp]["kind"]
    cfg = {"type": draw(gen.types_for(k)), "threads": draw(st.sampled_from([1, 2, 4, 8]))}
    cfg["gpo"], cfg["gpe"], cfg["tgpe"] = draw(gen.penalties())
    u = {"kind": kind, "inp": inp, "cfg": cfg}
    if kind == "F":
        u["nfiles"] = draw(st.sampled_from([1, 1, 2, 3]))
        u["infmt"] = draw(st.sampled_from(["fasta", "fasta", "afa", "msf", "clu"]))
        u["outfmts"] = draw(st.lists(st.sampled_from(["fasta", "msf", "clu"]), min_size=1, max_size=3))
        # aligning the same object a second time must give the first result again; writing before aligning must fail cleanly
        u["rerun"] = draw(st.integers(0, 3)) == 0
        u["early_write"] = draw(st.integers(0, 5)) == 0
        # a run that is rejected (type of the other kind) before the real one, and records appended after a first alignment:
        # the final result must be the one a fresh process gives without the rejected run / with all records read first
        u["fail_first"] = draw(st.integers(0, 5)) == 0
        u["append_after_run"] = draw(st.integers(0, 5)) == 0
        # a (large) file of the other kind offered to the object between two reads: it is refused, and must leave no trace
        u["refused_append"] = draw(st.integers(0, 5)) == 0
        # the remaining public calls on an msa object (duplicate-name check, rename / un-align), before aligning
        u["pre"] = draw(st.lists(st.sampled_from(["checkmsa %d 0", "checkmsa %d 1", "reformat %d 0 0", "reformat %d 1 0", "reformat %d 0 1", "reformat %d 1 1"]),
                                 min_size=1, max_size=2)) if draw(st.integers(0, 4)) == 0 else []
    elif kind == "C":
        u["seed1"] = draw(st.integers(0, 9999))
        u["seed2"] = draw(st.integers(0, 9999))
        u["fmt1"] = draw(st.sampled_from(["fasta", "msf", "clu"]))
        u["fmt2"] = draw(st.sampled_from(["fasta", "msf", "clu"]))
    elif kind == "R":
        u["cfg"] = dict(cfg, type=3 if k == "dna" else 0)
    elif kind == "X":
        # reads that add nothing (a directory, a missing file, an empty file, blank lines, bytes that are no sequence file):
        # whatever they return, later calls must not notice them
        u["odd"] = draw(st.lists(st.sampled_from(["dir", "missing", "empty", "blank", "binary"]), min_size=1, max_size=3))
    return u


@st.composite
def cases(draw, tier):
    pool = draw(st.lists(inputs(), min_size=1, max_size=3))
    nu = draw(st.integers(3, 6 if tier == "quick" else 7))
    units = [draw(unit(pool)) for _ in range(nu)]
    order = draw(st.lists(st.integers(0, nu - 1), min_size=nu * 6, max_size=nu * 6))
    scr = draw(st.lists(st.tuples(st.integers(1, 40), st.sampled_from([1, 16, 255, 256, 257, 511, 520, 4096, 70000]), st.integers(0, 255)),
                        min_size=0, max_size=8))
    return {"pool": pool, "units": units, "order": order, "scribble": scr}


def strategy(tier):
    return cases(tier)


def unit_steps(u, pool, wd, slot0, baseline=False):
    """-> (script lines with {out} paths resolved, list of (index, what) to compare).  baseline=True leaves out the steps
    that must not matter (a rejected run, an alignment before more records are appended): the compared steps are the same"""
    inp = pool[u["inp"]]
    names, seqs = inp["names"], inp["seqs"]
    if u["kind"] == "C" or (u["kind"] in ("F", "R") and u.get("infmt", "fasta") != "fasta"):
        # aligned presentations cannot hold empty records
        keep = [i for i, x in enumerate(seqs) if x]
        names, seqs = [names[i] for i in keep], [seqs[i] for i in keep]
    kl = "P" if inp["kind"] == "protein" else "N"
    lines, keys = [], []
    if u["kind"] == "A":
        sp = wd.write(runner.seqset_bytes(seqs), ".seqs")
        lines.append("arr %s %s" % (sp, kal.cfg_args(u["cfg"])))
        keys.append((0, "arr"))
    elif u["kind"] in ("F", "R"):
        n = len(seqs)
        k = min(u.get("nfiles", 1), max(1, n // 2))
        bounds = [round(i * n / k) for i in range(k + 1)]
        # the history variants (rejected run first, append after a run, refused append) presuppose that every file on its own
        # is of the input's kind - kalign classifies each file when it is read
        if any(gen.expected_kind([x for x in seqs[a:b] if x]) != inp["kind"] for a, b in zip(bounds, bounds[1:])) or inp["kind"] not in ("dna", "protein"):
            u = dict(u, fail_first=False, append_after_run=False, refused_append=False)
        for a, b in zip(bounds, bounds[1:]):
            fmt = u.get("infmt", "fasta")
            ch = {"fmt": "fasta" if fmt in ("fasta", "afa") else fmt, "gapmode": "aligned" if fmt != "fasta" else "none",
                  "gapfrac": 0.3, "seed": a, "width": 60, "kindletter": kl}
            fp = wd.write(present.render_chunk(names[a:b], seqs[a:b], ch).encode("latin-1"), ".in")
            if u.get("append_after_run") and u["kind"] == "F" and k >= 2 and b == n and not baseline:
                # the last file is read only after the records read so far have been aligned once
                lines.append("run %d %s" % (slot0, kal.cfg_args(u["cfg"])))
            lines.append("read %d 1 %s" % (slot0, fp))
            keys.append((len(lines) - 1, "rc"))
            if u.get("refused_append") and u["kind"] == "F" and a == 0 and inp["kind"] in ("dna", "protein") and not baseline:
                other = gen.expand_random(u["inp"] * 31 + 5, gen.AA if inp["kind"] == "dna" else gen.NUC, 6, 250, 400)
                lines.append("read %d 1 %s" % (slot0, wd.write(kal.fasta_bytes(["x%d" % i for i in range(6)], other), ".fa")))
        if u.get("fail_first") and u["kind"] == "F" and inp["kind"] in ("dna", "protein") and not baseline:
            lines.append("run %d %s" % (slot0, kal.cfg_args(dict(u["cfg"], type=3 if inp["kind"] == "dna" else 0))))
        if u.get("early_write"):
            lines.append("write %d fasta %s" % (slot0, wd.path(".early")))
            keys.append((len(lines) - 1, "early_write_rc"))
        # (renaming counts records, and a rejected run already drops the empty ones: the extra calls are only made in units
        # whose reference sequence has the same steps)
        for pre in (u.get("pre") or []) if u["kind"] == "F" and not (u.get("fail_first") or u.get("append_after_run") or u.get("refused_append")) else []:
            lines.append(pre % slot0)
            keys.append((len(lines) - 1, "rc"))
        lines.append("run %d %s" % (slot0, kal.cfg_args(u["cfg"])))
        keys.append((len(lines) - 1, "rc"))
        lines.append("dump %d" % slot0)
        keys.append((len(lines) - 1, "dump"))
        if u.get("rerun") and u["kind"] == "F":
            lines.append("run %d %s" % (slot0, kal.cfg_args(u["cfg"])))
            keys.append((len(lines) - 1, "rc"))
            lines.append("dump %d" % slot0)
            keys.append((len(lines) - 1, "dump"))
        for fmt in u.get("outfmts", []):
            op = wd.path("." + fmt)
            lines.append("write %d %s %s" % (slot0, fmt, op))
            keys.append((len(lines) - 1, "file:%s:%s" % (fmt, op)))
        lines.append("free %d" % slot0)
    elif u["kind"] == "X":
        import os
        for k, odd in enumerate(u.get("odd") or ["dir"]):
            if odd == "dir":
                path = wd.d
            elif odd == "missing":
                path = os.path.join(wd.d, "no_such_file_%d.fa" % k)
            else:
                path = wd.write({"empty": b"", "blank": b"\n\n\n\n\n\n", "binary": bytes(range(256)) * 3}[odd], ".odd")
            lines.append("read %d 1 %s" % (slot0, path))
            keys.append((len(lines) - 1, "rc"))
        lines.append("free %d" % slot0)
    else:  # C
        from props.c17 import random_alignment
        r1 = random_alignment(seqs, u["seed1"], 3)
        r2 = random_alignment(seqs, u["seed2"], 5)
        for slot, rows, fmt in ((slot0, r1, u["fmt1"]), (slot0 + 1, r2, u["fmt2"])):
            text = formats.write_any(fmt, names, rows) if fmt != "msf" else formats.write_msf(names, rows, kind=kl)
            fp = wd.write(text.encode("latin-1"), "." + fmt)
            lines.append("read %d 1 %s" % (slot, fp))
            keys.append((len(lines) - 1, "rc"))
        lines.append("compare %d %d" % (slot0, slot0 + 1))
        keys.append((len(lines) - 1, "score"))
        lines.append("free %d" % slot0)
        lines.append("free %d" % (slot0 + 1))
    return lines, keys


def extract(steps, base, keys):
    out = []
    for idx, what in keys:
        s = steps[base[idx]] if isinstance(base, list) else steps[base + idx]
        if what == "rc":
            out.append(("rc", s.get("rc"), s.get("null")))
        elif what == "early_write_rc":
            out.append(("early_write", s.get("rc")))
        elif what == "arr":
            out.append(("arr", s.get("rc"), s.get("alnlen"), s.get("rows")))
        elif what == "dump":
            m = s.get("msa")
            out.append(("dump", None if m is None else (m["numseq"], m["aligned"], m["alnlen"], m["biotype"],
                                                       [(q["name"], q["seq"], q["gaps"]) for q in m["seqs"]])))
        elif what == "score":
            out.append(("score", s.get("rc"), s.get("score")))
        elif what.startswith("file:"):
            _, fmt, path = what.split(":", 2)
            try:
                with open(path, "rb") as fh:
                    text = fh.read().decode("latin-1")
            except OSError:
                text = None
            out.append(("file", fmt, s.get("rc"), norm_file(fmt, text)))
    return out


def check(case):
    pool, units = case["pool"], case["units"]
    wd = runner.workdir()
    # ---- the program: interleave the unit steps
    per_unit = []
    for ui, u in enumerate(units):
        lines, keys = unit_steps(u, pool, wd, ui * 2)
        per_unit.append([lines, keys, 0])
    prog = []
    pos = [[] for _ in units]          # for each unit: index in prog of each of its steps
    scr = list(case["scribble"])
    owner = []
    for pick in case["order"] + list(range(len(units))) * 40:      # (every unit runs to its end: the longest has 17 steps)
        u = pick % len(units)
        lines, keys, nxt = per_unit[u]
        if nxt >= len(lines):
            continue
        if scr and (len(prog) % 3 == 1):
            c, sz, by = scr.pop()
            prog.append("scribble %d %d %d" % (c, sz, by))
            owner.append(-1)
        pos[u].append(len(prog))
        prog.append(lines[nxt])
        owner.append(u)
        per_unit[u][2] = nxt + 1
    interleaved = False
    seq_owner = [o for o in owner if o >= 0]
    for u in range(len(units)):
        idx = [i for i, o in enumerate(seq_owner) if o == u]
        if idx and any(seq_owner[i] != u for i in range(idx[0], idx[-1] + 1)):
            interleaved = True
    pr = runner.run_probe(prog, env=runner.LEAK_ENV)
    cl = ["units=%d" % len(units)] + sorted(set("unit=" + u["kind"] for u in units))
    if any(u.get("rerun") for u in units):
        cl.append("rerun")
    if interleaved:
        cl.append("interleaved")
    if pr.ended.kind == "leak":
        return engine.violation({"what": "LeakSanitizer: memory still allocated after every object was freed", **pr.ended.brief(),
                                 "units": [u["kind"] for u in units]}, classes=cl, kind="crash")
    if pr.ended.bad or pr.ended.rc != 0 or pr.steps is None or len(pr.steps) != len(prog):
        if pr.ended.kind == "hang":
            return engine.discard("cpu-limit")
        return engine.violation({"what": "process failure in the program", **pr.ended.brief()}, classes=cl, kind="crash")
    in_prog = [extract(pr.steps, pos[u], per_unit[u][1]) for u in range(len(units))]
    # ---- units that align the same object twice: the second result must be the first one again
    for ui, u in enumerate(units):
        dumps = [x for x in in_prog[ui] if x[0] == "dump"]
        if u.get("rerun") and len(dumps) == 2 and dumps[0] != dumps[1]:
            return engine.violation({"what": "unit %d: aligning the same object a second time gave a different result" % ui,
                                     "first": str(dumps[0])[:300], "second": str(dumps[1])[:300]}, classes=cl + ["rerun"])
        ew = [x for x in in_prog[ui] if x[0] == "early_write"]
        if ew and ew[0][1] == 0:
            return engine.violation({"what": "unit %d: kalign_write_msa succeeded on an object that has not been aligned" % ui}, classes=cl)
    # ---- each unit alone in a fresh process
    for ui, u in enumerate(units):
        lines, keys = unit_steps(u, pool, wd, 0, baseline=True)
        p1 = runner.run_probe(lines, env=runner.LEAK_ENV)
        if p1.ended.bad or p1.steps is None or len(p1.steps) != len(lines):
            if p1.ended.kind == "leak" and u["kind"] == "R":
                # a leak on the error path of a rejected run is reported by C05's terms (success path only): not judged here
                return engine.discard("leak on the error path of a rejected run (outside the claim)")
            return engine.violation({"what": "process failure running unit %d (%s) alone" % (ui, u["kind"]), **p1.ended.brief()}, classes=cl, kind="crash")
        alone = extract(p1.steps, 0, keys)
        if alone != in_prog[ui]:
            k = [i for i, (a, b) in enumerate(zip(alone, in_prog[ui])) if a != b]
            i = k[0] if k else 0
            return engine.violation({"what": "unit %d (%s) gives a different result inside the program than alone in a fresh process" % (ui, u["kind"]),
                                     "step": keys[i][1][:20], "alone": str(alone[i])[:400], "in_program": str(in_prog[ui][i])[:400],
                                     "program": [p.split()[0] for p in prog]}, classes=cl)
    # ---- nothing the library allocated may remain allocated: live-heap accounting on the un-sanitised build
    # (LeakSanitizer cannot see memory parked behind a static pointer).  A warm-up unit lets the OpenMP runtime and
    # stdio allocate their one-time structures first.
    tiny = wd.write(b">w1\nACGTACGTAC\n>w2\nACGTTCGTAC\n>w3\nACGACGTAC\n", ".fa")
    warm = ["read 15 1 %s" % tiny, "run 15 8 5 -1 -1 -1"] + ["write 15 %s %s" % (f, wd.path("." + f)) for f in ("fasta", "msf", "clu")] + \
           ["free 15", "read 15 1 %s" % tiny, "read 14 1 %s" % tiny, "run 15 2 5 -1 -1 -1", "run 14 2 5 -1 -1 -1", "compare 15 14", "free 15", "free 14"]
    sp = wd.write(runner.seqset_bytes(["ACGTAC", "ACGAAC"]), ".seqs")
    warm.append("arr %s 8 5 -1 -1 -1" % sp)
    hp = runner.run_probe(warm + ["heapmark"] + prog + ["heapmark"], variant="plain", heap=True)
    if hp.ended.bad or hp.steps is None or len(hp.steps) != len(warm) + len(prog) + 2:
        return engine.violation({"what": "process failure in the heap-accounting run", **hp.ended.brief()}, classes=cl, kind="crash")
    # the same program under the system allocator (the sanitizer's allocator never hands a freed block out again, so
    # anything that depends on where objects lie in memory can only show here): every unit must again give its result
    off = len(warm) + 1
    in_plain = [extract(hp.steps, [off + i for i in pos[u]], per_unit[u][1]) for u in range(len(units))]
    for ui, u in enumerate(units):
        if in_plain[ui] == in_prog[ui]:
            continue
        lines, keys = unit_steps(u, pool, wd, 0, baseline=True)
        p2 = runner.run_probe(lines, variant="plain", heap=True)
        if p2.ended.bad or p2.steps is None or len(p2.steps) != len(lines):
            return engine.violation({"what": "process failure running unit %d (%s) alone (un-sanitised build)" % (ui, u["kind"]), **p2.ended.brief()}, classes=cl, kind="crash")
        alone2 = extract(p2.steps, 0, keys)
        if alone2 != in_plain[ui]:
            k = [i for i, (a, b) in enumerate(zip(alone2, in_plain[ui])) if a != b]
            i = k[0] if k else 0
            return engine.violation({"what": "unit %d (%s) gives a different result inside the program than alone in a fresh process (un-sanitised build, system allocator)" % (ui, u["kind"]),
                                     "step": keys[i][1][:20], "alone": str(alone2[i])[:400], "in_program": str(in_plain[ui][i])[:400],
                                     "program": [p.split()[0] for p in prog]}, classes=cl)
        cl.append("builds_differ(not judged here)")
    cl.append("system_allocator_run")
    h0, h1 = hp.steps[len(warm)], hp.steps[-1]
    if h0.get("rc") == 0 and h1.get("rc") == 0:
        grown = h1["live_bytes"] - h0["live_bytes"]
        cl.append("heap_accounted")
        if grown > 2048 or h1["live_blocks"] - h0["live_blocks"] > 8:
            return engine.violation({"what": "after every object was freed %d more bytes in %d more blocks are still allocated than before the program" %
                                     (grown, h1["live_blocks"] - h0["live_blocks"]), "units": [u["kind"] for u in units]}, classes=cl)
    distinct = len(set((u["inp"], u["kind"], str(sorted(u["cfg"].items()))) for u in units))
    nt = len(units) >= 3 and distinct >= 2 and interleaved
    return engine.ok(nt, cl, {"program": [p.split()[0] + ":" + str(o) for p, o in zip(prog, owner)][:40],
                              "units": [(u["kind"], u["inp"], u["cfg"]["type"], u["cfg"]["threads"]) for u in units]})


# ------------------------------------------------------------------ enumerated: inputs large enough for the k-means guide tree

def extra(tier, seed, stats):
    """Programs over star-shaped families of 101..160 sequences x 150/300 residues with one long outlier of skewed composition
    (the shape on which a k-means split isolates a single sequence), nucleotide and protein: two file units and an array
    unit each; same oracle as every other program (fresh-process equality, LeakSanitizer, heap accounting)."""
    from concurrent.futures import ThreadPoolExecutor
    import random as _r
    cases_ = []
    shapes = [(101, 150), (140, 300), (160, 150)] if tier == "quick" else [(100, 150), (101, 150), (120, 200), (140, 300), (160, 150), (260, 300)]
    for i, (n, L) in enumerate(shapes):
        for kind, alpha, few in (("dna", gen.NUC, "AC"), ("protein", gen.AA, "WCHM")):
            rnd = _r.Random(seed * 7 + i)
            fam = gen.expand_family(rnd.randrange(2 ** 32), alpha, n, L, 0.03, 0.01, 0.0, tree=False)
            fam.insert(n // 2, "".join(rnd.choice(few) for _ in range(2 * L + 20)))
            pool = [{"names": ["m%d" % j for j in range(len(fam))], "seqs": fam, "kind": kind}]
            cfg = {"type": 5, "threads": 1 + i % 4, "gpo": -1.0, "gpe": -1.0, "tgpe": -1.0}
            units = [{"kind": "F", "inp": 0, "cfg": cfg, "nfiles": 1, "infmt": "fasta", "outfmts": ["fasta"], "rerun": False, "early_write": False, "pre": []},
                     {"kind": "A", "inp": 0, "cfg": dict(cfg, threads=2)},
                     {"kind": "F", "inp": 0, "cfg": dict(cfg, threads=4), "nfiles": 2, "infmt": "fasta", "outfmts": ["msf"], "rerun": False, "early_write": False, "pre": []}]
            cases_.append({"pool": pool, "units": units, "order": [0, 1, 2] * 6, "scribble": [[3, 256, 7]]})
    # two array calls in a row whose inputs have the same shape (same number of sequences, same lengths, hence the same
    # allocation pattern) but different residues in the sequences that are compared first: anything remembered per buffer
    # address or per length from the first call is wrong for the second
    for i in range(8 if tier == "quick" else 24):
        rnd = _r.Random(seed * 53 + i)
        kind, alpha = (("dna", gen.NUC), ("protein", gen.AA))[(i // 2) % 2]
        n = rnd.randint(105, 150)
        L = rnd.choice([60, 100, 150])
        if i % 2:
            # every sequence of both inputs has the same length: every buffer of the second call is a candidate for re-use
            fam1 = gen.expand_family(rnd.randrange(2 ** 32), alpha, n, L, 0.15, 0.0, 0.0, tree=bool(i % 3))
            fam2 = gen.expand_family(rnd.randrange(2 ** 32), alpha, n, L, 0.25, 0.0, 0.0, tree=bool(i % 3))
        else:
            fam1 = gen.expand_family(rnd.randrange(2 ** 32), alpha, n, L, 0.15, 0.0, 0.0, tree=bool(i % 3))
            fam1 = [x[:L - rnd.randint(0, 12)] for x in fam1]
            fam1[0] = (fam1[0] + "".join(rnd.choice(alpha) for _ in range(L)))[:L + 7]       # the longest: compared first
            fam2 = list(fam1)
            for j in rnd.sample(range(n), 1 + n // 10) + [0]:
                fam2[j] = gen.mutate(rnd, fam1[j], alpha, 0.5, 0.0, 0.0) if len(fam1[j]) else fam1[j]
                fam2[j] = (fam2[j] + fam1[j])[:len(fam1[j])]
        if gen.expected_kind(fam1) != kind or gen.expected_kind(fam2) != kind:
            continue
        pool = [{"names": ["a%d" % j for j in range(n)], "seqs": fam1, "kind": kind}, {"names": ["a%d" % j for j in range(n)], "seqs": fam2, "kind": kind}]
        cfg = {"type": 5, "threads": 1 + i % 3, "gpo": -1.0, "gpe": -1.0, "tgpe": -1.0}
        units = [{"kind": "A", "inp": 0, "cfg": cfg}, {"kind": "A", "inp": 1, "cfg": cfg}, {"kind": "A", "inp": 0, "cfg": cfg}, {"kind": "A", "inp": 1, "cfg": cfg}]
        cases_.append({"pool": pool, "units": units, "order": [0, 1, 2, 3], "scribble": []})
    with ThreadPoolExecutor(max_workers=6) as ex:
        res = list(ex.map(check, cases_))
    out = []
    for c, r in zip(cases_, res):
        stats.record(c, r)
        stats.classes["kmeans_outlier_programs"] += 1
        if r["status"] == "violation":
            out.append({"case": c, "detail": r["detail"], "kind": r.get("kind")})
    return out
