"""C06 Alignments survive a write/read round trip in every format."""
from hypothesis import strategies as st

from vlib import alngen, engine, formats, gen, kal, oracle, runner

ID = "C06"
RULE = ("Alignments come from two sources: kalign's own result on a generated set, or a synthetic alignment of exact width "
        "(1, 2, 7, 59/60/61, 119/120/121, 179/180/181, 240, 300 or 1..200; no all-gap column; upper/lower/mixed case; names of "
        "1..200 characters from [A-Za-z0-9_.|-], pairwise distinct) that enters kalign as aligned FASTA written by my writer. "
        "Then a chain of 1..3 output formats drawn so that all 9 ordered pairs occur: write(fmt) -> free -> read -> dump, "
        "finalise -> write(fmt2) -> ... Oracle: after every read the probe's dump (names, residues, rows rebuilt from gaps[]) "
        "equals the alignment that was written. Non-trivial = >= 2 rows and >= 1 gap; classes width%60==0, name length>60, "
        "chain>=2 and each ordered pair.")
ASSUMPTIONS = ["gap-free alignments are compared after the first hop only (a gap-free file is by design not recognised as aligned)"]
BUDGET = {"quick": dict(examples=220, workers=12, seconds=70), "thorough": dict(examples=1300, workers=16, seconds=600)}

FMTS = ["fasta", "msf", "clu"]


@st.composite
def cases(draw, tier):
    big = tier == "thorough"
    src = draw(st.one_of(alngen.synthetic(max_n=30 if not big else 80), alngen.synthetic(max_n=12),
                         alngen.to_align(max_n=25 if not big else 70, max_len=150 if not big else 500)))
    chain = draw(st.lists(st.sampled_from(FMTS), min_size=1, max_size=3))
    return {"src": src, "chain": chain}


def strategy(tier):
    return cases(tier)


def check(case):
    src, chain = case["src"], case["chain"]
    wd = runner.workdir()
    lines = []
    expect_idx = []
    if src["source"] == "synthetic":
        names, rows = src["names"], src["rows"]
        fp = wd.write(formats.write_fasta(names, rows, width=60).encode("latin-1"), ".afa")
        lines += ["read 0 1 %s" % fp, "dump 0"]
        expect_idx.append(1)
        truth = (names, rows)
        gapfree = not oracle.has_gap(rows)
        lines.append("finalise 0")
    else:
        names = src["names"]
        fp = wd.write(kal.fasta_bytes(names, src["seqs"]), ".fa")
        lines += ["read 0 1 %s" % fp, "run 0 %d %d -1 -1 -1" % (src["threads"], src["type"]), "dump 0"]
        truth = None
        gapfree = None
    files = []
    for k, fmt in enumerate(chain):
        op = wd.path("." + fmt)
        files.append(op)
        lines += ["write 0 %s %s" % (fmt, op), "free 0", "read 0 1 %s" % op, "dump 0"]
        expect_idx.append(len(lines) - 1)
        lines.append("finalise 0")
    lines.append("free 0")
    pr = runner.run_probe(lines)
    if pr.ended.bad or pr.ended.rc != 0 or pr.steps is None or len(pr.steps) != len(lines):
        if pr.ended.kind == "hang":
            return engine.discard("cpu-limit")
        return engine.violation({"what": "process failure", **pr.ended.brief(), "chain": chain}, kind="crash")
    st_ = pr.steps
    if src["source"] == "kalign":
        if st_[0]["rc"] != 0 or st_[1]["rc"] != 0:
            return engine.discard("source alignment could not be produced (C01/C05 territory)")
        tn, tr = kal.msa_rows(st_[2]["msa"])
        truth = (tn, tr)
        gapfree = not oracle.has_gap(tr)
        if tn != names:
            return engine.discard("source names differ (C01 territory)")
    tn, tr = truth
    width = len(tr[0])
    cl = ["source=" + src["source"], "chain=%d" % len(chain)]
    if width % 60 == 0:
        cl.append("width%60==0")
    if max(len(x) for x in tn) > 60:
        cl.append("name>60")
    prev = "afa" if src["source"] == "synthetic" else "run"
    for f in chain:
        cl.append("pair=%s->%s" % (prev, f))
        prev = f
    hop = 0
    for idx in expect_idx:
        s = st_[idx]
        m = s.get("msa")
        what = "initial read of the aligned FASTA" if (src["source"] == "synthetic" and idx == 1) else "read after write(%s)" % chain[hop if src["source"] == "kalign" else hop - 1]
        # find the write step rc just before (if any)
        if idx >= 3 and st_[idx - 3]["op"] == "write" and st_[idx - 3]["rc"] != 0:
            return engine.violation({"what": "write failed", "fmt": st_[idx - 3], "chain": chain}, classes=cl, kind="status")
        if st_[idx - 1]["rc"] != 0 or m is None:
            return engine.violation({"what": "%s failed" % what, "rc": st_[idx - 1]["rc"], "chain": chain}, classes=cl, kind="status")
        gn = [q["name"] for q in m["seqs"]]
        gres = [q["seq"] if m["aligned"] != 3 or m["alnlen"] == 0 else q["seq"].replace("-", "") for q in m["seqs"]]
        grow = [kal.rows_from_gaps(q) for q in m["seqs"]]
        if gn != tn:
            bad = [i for i, (a, b) in enumerate(zip(gn, tn)) if a != b]
            return engine.violation({"what": "%s: names differ" % what, "count": [len(gn), len(tn)],
                                     "first": [gn[bad[0]][:80], tn[bad[0]][:80]] if bad else None, "chain": chain}, classes=cl)
        if gres != [r.replace("-", "") for r in tr]:
            return engine.violation({"what": "%s: residues differ" % what, "chain": chain}, classes=cl)
        if grow != tr:
            i = [k for k, (a, b) in enumerate(zip(grow, tr)) if a != b][0]
            return engine.violation({"what": "%s: gaps differ in row %d" % (what, i), "got": grow[i][:160], "want": tr[i][:160],
                                     "width": width, "chain": chain}, classes=cl)
        hop += 1
        if gapfree:
            break
    nt = len(tr) >= 2 and not gapfree
    return engine.ok(nt, cl, {"source": src["source"], "names": tn[:2], "rows": [r[:70] for r in tr[:2]], "width": width,
                              "chain": chain})


# ------------------------------------------------------------------ enumerated size sweep (exact buffer-growth edges)

def _sweep_items(tier):
    rows = list(range(2, 401)) + list(range(500, 525)) + list(range(1000, 1040)) if tier == "quick" else list(range(2, 2201))
    return [(n, 2, 2) for n in rows] + [(3, w, 2) for w in list(range(1, 261)) + list(range(505, 531)) + list(range(1020, 1045))] + [(3, 70, nl) for nl in range(1, 201)] + \
           [(n, 61, 2) for n in (16, 17, 18, 340, 341, 342, 510, 511, 512, 513)]


def _sweep_case(item):
    n, w, nl = item
    rows = []
    for i in range(n):
        r = ["ACGT"[(i + c) % 4] for c in range(w)]
        if w > 1:
            r[i % w] = "-"
        rows.append("".join(r))
    if w == 1:
        rows = ["A-" if i % 2 else "-A" for i in range(n)]
    if w > 300:
        # around the 512-residue increments of the row buffers: a full row, a row whose last residue (number w-5) is followed
        # by a gap run, a row that starts with a gap run
        full = "".join("ACGT"[(c * 7 + c // 3) % 4] for c in range(w))
        rows = [full, full[:w - 5] + "-----", "---" + full[3:]][:n] + [full] * max(0, n - 3)
    names = [("s%d_" % i + "n" * nl)[:max(nl, len("s%d" % i))] for i in range(n)]
    return {"src": {"names": names, "rows": rows, "source": "synthetic"}, "chain": ["fasta", "msf", "clu"][(n + w + nl) % 3:] + ["clu"]}


def extra(tier, seed, stats):
    from concurrent.futures import ThreadPoolExecutor
    out = []
    items = _sweep_items(tier)
    cases_ = [_sweep_case(it) for it in items]
    with ThreadPoolExecutor(max_workers=12) as ex:
        res = list(ex.map(check, cases_))
    for it, c, r in zip(items, cases_, res):
        stats.evaluations += 1
        stats.classes["sweep_items"] += 1
        if r["status"] == "violation":
            out.append({"case": c, "detail": dict(r["detail"], sweep_item=list(it)), "kind": r.get("kind")})
        elif r.get("nontrivial"):
            stats.nontrivial.add("sweep:%d:%d:%d" % it)
    # name shapes, enumerated (all within the character set the property names): digits only, prefix relations, format
    # words, leading / trailing / only punctuation, case-only differences, database-style identifiers
    from vlib import gen as _gen
    groups = [["1", "2", "3", "10"], ["007", "0", "00", "7"], ["seq", "seq1", "seq10", "seq100"], ["seq100", "seq10", "seq1", "seq"],
              ["abc", "ABC", "Abc", "aBC"], ["-a", "a-", "_", "x.y.z"], ["|x|", "a|b|c", "sp|P12345|NAME_HUMAN", "tr|Q9|X_Y"],
              ["1e5", "0x1F", "-1", "1.5"], ["a.1", "a.2", "a_1", "a-1"], ["123456789012345678901234567890", "12345678901234567890123456789", "9", "99"],
              # rows may share a name (nothing in the formats forbids it): rows are rows, whatever they are called
              ["a", "b", "a", "c"], ["x", "x", "x", "x"], ["P1|kinase_A", "q", "P1|kinase_A", "r"], ["dup", "dup", "u1", "u2"], ["u1", "u2", "dup", "dup"]]
    words = list(_gen.FORMAT_WORDS)
    for i in range(0, len(words), 4):
        g = words[i:i + 4]
        while len(g) < 4:
            g.append("w%d" % len(g))
        groups.append(["%s_%d" % (w, k) for k, w in enumerate(g)])
        groups.append(list(g) if len(set(g)) == 4 else ["%s.%d" % (w, k) for k, w in enumerate(g)])
    rows4 = ["ACGTACGT-ACGTTGCA" * 4, "ACGTAC-TTACGTTGCA" * 4, "AC-TACGTTACGTTGCA" * 4, "ACGTACGTTACG-TGCA" * 4]
    ncases = []
    for g in groups:
        for chain in (["fasta"], ["msf"], ["clu"], ["msf", "clu", "fasta"]):
            ncases.append({"src": {"names": list(g), "rows": rows4, "source": "synthetic"}, "chain": chain})
    # tall alignments whose first 50 / 51 / 60 rows (or last rows) are gap-free, gaps only in the few remaining rows
    import random as _r
    for k, n in ((50, 51), (50, 55), (51, 55), (60, 64), (50, 120)):
        for tail_first in (False, True):
            rnd = _r.Random(seed + k * 7 + n)
            full = ["".join(rnd.choice("ACDEFGHIKLMNPQRSTVWY") for _ in range(66)) for _ in range(k)]
            gapped = []
            for i in range(n - k):
                r = list(full[i % k])
                for c in rnd.sample(range(66), 5 + i % 40):
                    r[c] = "-"
                gapped.append("".join(r))
            rows_t = (gapped + full) if tail_first else (full + gapped)
            for chain in (["fasta"], ["msf"], ["clu"], ["clu", "msf"]):
                ncases.append({"src": {"names": ["t%d" % i for i in range(n)], "rows": rows_t, "source": "synthetic"}, "chain": chain})
    with ThreadPoolExecutor(max_workers=12) as ex:
        nres = list(ex.map(check, ncases))
    for c, r in zip(ncases, nres):
        stats.evaluations += 1
        stats.classes["name_shapes_enumerated"] += 1
        if r["status"] == "violation":
            out.append({"case": c, "detail": r["detail"], "kind": r.get("kind")})
        elif r["status"] == "ok":
            stats.nontrivial.add("names:%s:%s" % (c["src"]["names"][1], "+".join(c["chain"])))
    stats.extra["sweep"] = "every row count %s (width 2), every width 1..260, 505..530, 1020..1044 (3 rows), every name length 1..200 (exhaustive over those ranges)" % ("2..400, 500..524, 1000..1039" if tier == "quick" else "2..2200")
    return out
