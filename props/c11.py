"""C11 The bit-parallel distance kernel equals the edit distance it stands for (rapidcheck + exhaustive enumeration)."""
import json
import os
import subprocess
import sys
import time
from concurrent.futures import ThreadPoolExecutor

from vlib import build, engine, runner

ID = "C11"
RULE = ("bpm.c from /repo is compiled twice (-mavx2 -DHAVE_AVX2 and without) with ASan+UBSan and linked into the harness. "
        "Exhaustive: alphabets of 2 and 3 symbols, every text up to the stated length and every pattern not longer than the "
        "text, for bpm_block, bpm (m<=63) and bpm_256 (m<=255, AVX2 build). rapidcheck: alphabet size 1..13; small fully drawn "
        "pairs; pattern = mutated substring of the text, unrelated, or with symbol-0 tails; pattern lengths concentrated on "
        "1..5, 62..66, 126..130, 191..193, 254..257, 319..321, 511..513, 767..769, 1022..1026, 1100 and uniform 1..1100; text = "
        "pattern length + {0,1,2,63,64,65,200,1000,2900}; long single-symbol runs. Reference: Sellers O(nm) recurrence "
        "(D[0][j]=0, D[i][0]=i), minimum over the last row and the empty substring, pattern truncated to 1024. Non-trivial = "
        "0 < distance < m (counted; multi-block = m > 64); distinct cases are counted by the enumerator (all distinct) and by "
        "rapidcheck's own generator (non-trivial count is a lower bound on distinct cases only up to seed collisions).")
ASSUMPTIONS = ["domain: 1 <= pattern length <= text length, symbols 0..12 (the only caller passes the longer sequence as text)"]
CFG = {"quick": dict(ex2=10, ex3=6, procs=8, per_proc=9000), "thorough": dict(ex2=12, ex3=8, procs=12, per_proc=40000)}

SAN = ["-fsanitize=address,undefined", "-fno-sanitize-recover=undefined", "-fno-omit-frame-pointer"]


def ensure_bins():
    b = build.ensure("plain")
    d = os.path.join(os.path.dirname(b["dir"]), "c11")
    stamp = os.path.join(d, "OK")
    bins = {"avx2": os.path.join(d, "c11_avx2"), "noavx": os.path.join(d, "c11_noavx")}
    if os.path.exists(stamp):
        return bins
    with build.Lock(d + ".lock"):
        if os.path.exists(stamp):
            return bins
        os.makedirs(d, exist_ok=True)
        main_o = os.path.join(build.BUILD, "c11_main.o")
        if not os.path.exists(main_o) or os.path.getmtime(main_o) < os.path.getmtime(os.path.join(build.NATIVE, "c11_main.cpp")):
            build._run(["g++", "-O2", "-g", "-std=gnu++17", "-c", os.path.join(build.NATIVE, "c11_main.cpp"), "-o", main_o])
        src = os.path.join(build.REPO, "lib", "src")
        for name, flags in (("avx2", ["-mavx2", "-DHAVE_AVX2"]), ("noavx", ["-DNOHAVE_AVX2"])):
            o = os.path.join(d, "bpm_%s.o" % name)
            build._run(["gcc", "-O2", "-g", "-std=gnu11"] + SAN + flags + ["-I", src, "-I", b["incbin"], "-c",
                       os.path.join(src, "bpm.c"), "-o", o])
            build._run(["g++", "-o", bins[name], main_o, o, b["lib"], "-lrapidcheck", "-lm"] + SAN)
        with open(stamp, "w") as fh:
            fh.write("ok\n")
    return bins


def run_bin(argv, env=None, timeout=3600):
    e = dict(runner.BASE_ENV)
    e.update(env or {})
    p = subprocess.run(argv, env=e, stdout=subprocess.PIPE, stderr=subprocess.PIPE, timeout=timeout)
    out = p.stdout.decode("latin-1")
    counters = {}
    for ln in out.splitlines():
        if ln.startswith("{"):
            try:
                counters = json.loads(ln)
            except ValueError:
                pass
    return p.returncode, out, p.stderr.decode("latin-1"), counters


def main(tier, seed, replay):
    t0 = time.time()
    bins = ensure_bins()
    os.makedirs(engine.REPLAY_DIR, exist_ok=True)
    if replay:
        bad = False
        for name, b in bins.items():
            rc, out, err, c = run_bin([b, "replay", replay])
            print(name, "rc=%d" % rc, out.strip()[:300], err[-300:])
            bad = bad or rc != 0
        if bad:
            print("VIOLATION property=%s replay=%s" % (ID, replay))
            return 1
        return 0
    cfg = CFG[tier]
    violations = []
    total = {}
    jobs = []
    # replay tier
    for f in sorted(os.listdir(engine.REPLAY_DIR)):
        if f.startswith("C11-") and f.endswith(".txt"):
            for name, b in bins.items():
                jobs.append(("replay", name, [b, "replay", os.path.join(engine.REPLAY_DIR, f)], None, os.path.join(engine.REPLAY_DIR, f)))
    tmpd = os.path.join(build.BUILD, "tmp")
    os.makedirs(tmpd, exist_ok=True)
    for name, b in bins.items():
        for sigma, key in ((2, "ex2"), (3, "ex3")):
            ff = os.path.join(tmpd, "c11fail.%d.%s.ex%d" % (os.getpid(), name, sigma))
            jobs.append(("exhaustive", name, [b, "exhaustive", str(sigma), str(cfg[key]), ff], None, ff))
        for k in range(cfg["procs"] // 2):
            ff = os.path.join(tmpd, "c11fail.%d.%s.r%d" % (os.getpid(), name, k))
            s = (seed * 1000003 + k * 7919 + (0 if name == "avx2" else 104729)) % (2 ** 63)
            jobs.append(("random", name, [b, "random", ff],
                         {"RC_PARAMS": "seed=%d max_success=%d max_size=100 max_discard_ratio=50" % (s, cfg["per_proc"])}, ff))

    def do(job):
        kind, name, argv, env, ff = job
        rc, out, err, c = run_bin(argv, env)
        return job, rc, out, err, c

    with ThreadPoolExecutor(max_workers=16) as ex:
        results = list(ex.map(do, jobs))
    samples = []
    exhaustive_pairs = 0
    for (kind, name, argv, env, ff), rc, out, err, c in results:
        for k, v in c.items():
            if k == "have_bpm_256":
                total["have_bpm_256_" + name] = v
            else:
                total[k] = total.get(k, 0) + v
        if kind == "exhaustive":
            exhaustive_pairs += c.get("pairs", 0)
        san = "AddressSanitizer" in err or "runtime error:" in err
        if rc != 0 or san:
            dst = None
            if kind == "replay":
                dst = ff
            elif os.path.exists(ff):
                with open(ff) as fh:
                    body = fh.read()
                os.makedirs(engine.NEW_REPLAY_DIR, exist_ok=True)
                dst = os.path.join(engine.NEW_REPLAY_DIR, "C11-%s.txt" % engine.case_hash(body))
                with open(dst, "w") as fh:
                    fh.write(body)
                os.unlink(ff)
            else:
                os.makedirs(engine.NEW_REPLAY_DIR, exist_ok=True)
                dst = os.path.join(engine.NEW_REPLAY_DIR, "C11-crash-%s-%s.log" % (name, kind))
                with open(dst, "w") as fh:
                    fh.write(" ".join(argv) + "\n" + (env or {}).get("RC_PARAMS", "") + "\n" + out[-3000:] + "\n" + err[-6000:])
            violations.append((dst, name, kind, (out[-600:] + err[-600:])))
        if kind == "random" and len(samples) < 4:
            samples.append({"build": name, "engine": "rapidcheck", "RC_PARAMS": env["RC_PARAMS"], "counters": c})
        if kind == "exhaustive":
            samples.append({"build": name, "engine": "exhaustive", "sigma": int(argv[2]), "max_text_len": int(argv[3]), "pairs": c.get("pairs")})
    evaluations = total.get("bpm_block", 0)
    ev = {"property_id": ID, "tier": tier, "seed": seed, "level": "exploration",
          "coverage": {"evaluations": evaluations, "distinct_nontrivial": total.get("nontrivial", 0), "rule": RULE,
                       "samples": samples[:12], "classes": total, "exhaustive": True,
                       "exhaustive_part": "sigma=2 texts<=%d, sigma=3 texts<=%d, all patterns not longer than the text, both builds: %d pairs" % (cfg["ex2"], cfg["ex3"], exhaustive_pairs),
                       "random_cases": evaluations - exhaustive_pairs},
          "assumptions": ASSUMPTIONS, "wall_s": round(time.time() - t0, 2), "violations": len(violations)}
    with open(os.path.join(engine.EVID_DIR, ID + ".json"), "w") as fh:
        json.dump(ev, fh, indent=1)
    print("%s tier=%s seed=%d evaluations=%d nontrivial=%d multiblock_nontrivial=%d exhaustive_pairs=%d wall=%.1fs" % (
        ID, tier, seed, evaluations, total.get("nontrivial", 0), total.get("nontrivial_multiblock", 0), exhaustive_pairs, time.time() - t0))
    if violations:
        seen = set()
        for dst, name, kind, tail in violations:
            if dst in seen:
                continue
            seen.add(dst)
            print("detail: build=%s leg=%s %s" % (name, kind, tail.replace("\n", " | ")[:600]))
            print("VIOLATION property=%s replay=%s" % (ID, os.path.relpath(dst, engine.VERIF) if dst.startswith(engine.VERIF) else dst))
        return 1
    return 0
