"""C10 Progressive merging never re-aligns a finished sub-alignment."""
import random

from hypothesis import strategies as st

from vlib import engine, gen, kal, oracle

ID = "C10"
RULE = ("Inputs of 3..300 sequences (quick <= 160): clade-structured families (balanced guide trees), chain-like divergence "
        "(caterpillar trees), unrelated and degenerate sets, below and above the 100-sequence switch to k-means trees; all types, "
        "penalties, thread counts. The guarded MERGE_END hook snapshots, for every internal node actually used, the member "
        "sequences (by rank) and a copy of each member's gap vector at the moment the node completes. Oracle (history "
        "invariant): for every node, the final rows of its members with their common all-gap columns removed equal the snapshot "
        "alignment (rows rebuilt from the snapshot gap vectors). Non-trivial = some non-root node with >= 2 members into which "
        "a later merge inserted >= 1 column; distinct by hash of the case.")
ASSUMPTIONS = ["the MERGE_END event fires after make_seq/sip update of the node (add-only hook in do_align)"]
BUDGET = {"quick": dict(examples=500, workers=12, seconds=75), "thorough": dict(examples=900, workers=16, seconds=600)}


def chain_family(seed, alphabet, n, length, sub, indel):
    rnd = random.Random(seed)
    cur = "".join(rnd.choice(alphabet) for _ in range(max(2, length)))
    out = []
    for _ in range(n):
        cur = gen.mutate(rnd, cur, alphabet, sub, indel / 2, indel / 2) or cur
        out.append(cur)
    return out


@st.composite
def cases(draw, tier):
    k, alpha = draw(gen.alphabets())
    shape = draw(st.sampled_from(["clade", "chain", "any", "n100"]))
    big = tier == "thorough"
    if shape == "clade":
        seqs = gen.expand_family(draw(st.integers(0, 2 ** 32 - 1)), alpha, draw(st.integers(3, 40)), draw(st.integers(5, 150)),
                                 draw(st.sampled_from([0.05, 0.2, 0.4])), draw(st.sampled_from([0.02, 0.05, 0.1])),
                                 draw(st.sampled_from([0.0, 0.3])), tree=True)
    elif shape == "chain":
        seqs = chain_family(draw(st.integers(0, 2 ** 32 - 1)), alpha, draw(st.integers(3, 40)), draw(st.integers(5, 150)),
                            draw(st.sampled_from([0.03, 0.1])), draw(st.sampled_from([0.03, 0.08])))
    elif shape == "any":
        seqs = draw(gen.seqsets(kind=k, min_n=3, max_n=40, max_len=200))["seqs"]
    else:
        seqs = gen.expand_family(draw(st.integers(0, 2 ** 32 - 1)), alpha, draw(st.integers(100, 160 if not big else 300)),
                                 draw(st.integers(10, 80)), 0.15, draw(st.sampled_from([0.03, 0.08])), 0.2, tree=True)
    if len(seqs) < 3:
        seqs = seqs + [seqs[0][::-1] or "A"]
    kind = gen.expected_kind(seqs)
    cfg = {"type": draw(gen.types_for(kind)), "threads": draw(gen.threads)}
    cfg["gpo"], cfg["gpe"], cfg["tgpe"] = draw(gen.penalties())
    return {"seqs": seqs, "cfg": cfg, "shape": shape}


def strategy(tier):
    return cases(tier)


def rebuild(res, gaps):
    r = []
    for i, c in enumerate(res):
        r.append("-" * gaps[i])
        r.append(c)
    r.append("-" * gaps[len(res)])
    return "".join(r)


def check(case):
    seqs, cfg = case["seqs"], case["cfg"]
    n = len(seqs)
    names = ["s%d" % i for i in range(n)]
    try:
        r = kal.align_named(names, seqs, cfg, hook=(0, 1, 0))
    except kal.Failure as f:
        if f.ended.kind == "hang":
            return engine.discard("cpu-limit")
        return engine.violation({"what": "process failure", **f.detail()}, kind="crash")
    except kal.Rejected as e:
        return engine.violation({"what": "valid input rejected: " + e.what, "info": e.info}, kind="status")
    snaps = r["run"].get("snaps")
    if snaps is None:
        return engine.violation({"what": "no snapshots: hook not active"}, kind="harness")
    final = {}
    for q, row in zip(r["msa"]["seqs"], r["rows"]):
        final[q["rank"]] = row
    cl = ["shape=" + case["shape"], "threads>1" if cfg["threads"] > 1 else "threads=1"]
    if n >= 100:
        cl.append("n>=100")
    if len(snaps) != n - 1:
        return engine.violation({"what": "%d merge snapshots for %d sequences" % (len(snaps), n)}, classes=cl)
    inserted_later = False
    for sn in snaps:
        mem = sn["members"]
        try:
            frows = [final[m["rank"]] for m in mem]
        except KeyError:
            return engine.violation({"what": "snapshot refers to a rank that is not in the final alignment", "node": sn["node"]}, classes=cl)
        srows = [rebuild(fr.replace("-", ""), m["gaps"]) for fr, m in zip(frows, mem)]
        if len(set(len(x) for x in srows)) != 1:
            return engine.violation({"what": "snapshot rows of node %d have unequal lengths" % sn["node"],
                                     "lens": sorted(set(len(x) for x in srows))}, classes=cl)
        if len(set(len(x) for x in frows)) != 1:
            return engine.violation({"what": "final rows of the members of node %d have unequal lengths" % sn["node"],
                                     "lens": sorted(set(len(x) for x in frows))[:5]}, classes=cl)
        if [x.replace("-", "") for x in frows] != [seqs[m["rank"]] for m in mem]:
            return engine.violation({"what": "final rows of node %d do not spell the input sequences (C01)" % sn["node"]}, classes=cl)
        proj = oracle.strip_common_gap_columns(frows)
        snap = oracle.strip_common_gap_columns(srows)
        if proj != snap:
            i = [k for k, (a, b) in enumerate(zip(proj, snap)) if a != b][0]
            return engine.violation({"what": "node %d (%d members): final rows projected onto the group differ from the group's alignment at completion" % (sn["node"], len(mem)),
                                     "member_rank": mem[i]["rank"], "at_completion": snap[i][:200], "final_projection": proj[i][:200],
                                     "cfg": cfg, "n": n}, classes=cl)
        if len(mem) >= 2 and len(mem) < n and len(proj[0]) < len(frows[0]):
            inserted_later = True
    if inserted_later:
        cl.append("later_insertion")
    return engine.ok(inserted_later, cl, {"n": n, "shape": case["shape"], "cfg": cfg, "seqs": [s[:40] for s in seqs[:3]],
                                          "nodes": len(snaps)})


# ------------------------------------------------------------------ enumerated size sweep

def extra(tier, seed, stats):
    from concurrent.futures import ThreadPoolExecutor
    from vlib import sweeps
    cases_ = []
    for n in sweeps.count_sweep(tier == "quick"):
        if n < 3:
            continue
        kind = "dna" if n % 2 else "protein"
        cases_.append({"seqs": sweeps.family(n, 15 + n % 25, kind, salt=seed, indel=0.08),
                       "cfg": {"type": 5, "threads": 1 + n % 4, "gpo": -1.0, "gpe": -1.0, "tgpe": -1.0}, "shape": "sweep_n"})
    with ThreadPoolExecutor(max_workers=12) as ex:
        res = list(ex.map(check, cases_))
    out = []
    for c, r in zip(cases_, res):
        stats.record(c, r)
        if r["status"] == "violation":
            out.append({"case": c, "detail": r["detail"], "kind": r.get("kind")})
    stats.extra["sweep"] = "every sequence count of the count sweep (vlib/sweeps.py), indel-rich families"
    return out
