"""C10 Progressive merging never re-aligns a finished sub-alignment."""
import random

from hypothesis import strategies as st

from vlib import engine, gen, kal, oracle

ID = "C10"
RULE = ("Inputs of 3..300 sequences (quick <= 160): clade-structured families (balanced guide trees), chain-like divergence "
        "(caterpillar trees), fragment families (full-length relatives, prefix / suffix / inner fragments of 40..2300 residues - thorough ..4200 - and relatives with an insertion on or next to a fragment edge), unrelated and degenerate sets, below and above the 100-sequence switch to k-means trees; all types, "
        "penalties, thread counts. The guarded MERGE_END hook snapshots, for every internal node actually used, the member "
        "sequences (by rank) and a copy of each member's gap vector at the moment the node completes. Oracle (history "
        "invariant): for every node, the final rows of its members with their common all-gap columns removed equal the snapshot "
        "alignment (rows rebuilt from the snapshot gap vectors). Non-trivial = some non-root node with >= 2 members into which "
        "a later merge inserted >= 1 column; distinct by hash of the case.")
ASSUMPTIONS = ["the MERGE_END event fires after make_seq/sip update of the node (add-only hook in do_align)"]
BUDGET = {"quick": dict(examples=500, workers=12, seconds=75), "thorough": dict(examples=900, workers=16, seconds=600)}


def chain_family(seed, alphabet, n, length, sub, indel):
    rnd = random.Random(seed)
    cur = "".join(rnd.choice(alphabet) for _ in range(max(2, length)))
    out = []
    for _ in range(n):
        cur = gen.mutate(rnd, cur, alphabet, sub, indel / 2, indel / 2) or cur
        out.append(cur)
    return out


def frag_family(seed, alphabet, L, nfull, nfrag, nins):
    """full-length relatives of one ancestor, fragments of it (prefixes, suffixes, inner pieces) and relatives that carry an
    insertion on or next to a column at which a fragment ends or begins: later merges insert gap columns exactly at the
    edge of a member's trailing / leading gap run"""
    rnd = random.Random(seed)
    anc = "".join(rnd.choice(alphabet) for _ in range(L))
    def sub(s, rate):
        return "".join(rnd.choice(alphabet) if rnd.random() < rate else c for c in s)
    out = [sub(anc, 0.03) for _ in range(nfull)]
    edges = []
    for _ in range(nfrag):
        a = rnd.choice([0, 0, rnd.randint(1, max(1, L // 2))])
        b = rnd.choice([L, rnd.randint(max(a + 2, L // 2), L - 1)]) if a == 0 else rnd.choice([L, L, rnd.randint(a + 2, L)])
        if a == 0 and b == L:
            b = rnd.randint(L // 2, L - 1)
        out.append(sub(anc[a:b], 0.02) or anc[:2])
        edges += [x for x in (a, b) if 0 < x < L]
    for _ in range(nins):
        e = (rnd.choice(edges) if edges else rnd.randint(1, L - 1)) + rnd.choice([-1, 0, 0, 0, 1])
        e = min(max(e, 0), L)
        ins = rnd.choice("WKCM" if len(alphabet) > 6 else "ACGT") * rnd.randint(1, 8)
        out.append(sub(anc[:e], 0.08) + ins + sub(anc[e:], 0.08))
    rnd.shuffle(out)
    return out


@st.composite
def cases(draw, tier):
    k, alpha = draw(gen.alphabets())
    shape = draw(st.sampled_from(["clade", "chain", "any", "n100", "frag", "frag"]))
    big = tier == "thorough"
    if shape == "clade":
        seqs = gen.expand_family(draw(st.integers(0, 2 ** 32 - 1)), alpha, draw(st.integers(3, 40)), draw(st.integers(5, 150)),
                                 draw(st.sampled_from([0.05, 0.2, 0.4])), draw(st.sampled_from([0.02, 0.05, 0.1])),
                                 draw(st.sampled_from([0.0, 0.3])), tree=True)
    elif shape == "chain":
        seqs = chain_family(draw(st.integers(0, 2 ** 32 - 1)), alpha, draw(st.integers(3, 40)), draw(st.integers(5, 150)),
                            draw(st.sampled_from([0.03, 0.1])), draw(st.sampled_from([0.03, 0.08])))
    elif shape == "frag":
        L = draw(st.sampled_from([40, 80, 150, 300, 300, 700, 2100, 2300] if not big else [40, 80, 150, 300, 700, 1100, 2100, 2300, 3000, 4200]))
        seqs = frag_family(draw(st.integers(0, 2 ** 32 - 1)), alpha[:4] if k == "dna" else alpha[:20], L, draw(st.integers(1, 3)),
                           draw(st.integers(1, 3)), draw(st.integers(1, 3)))
    elif shape == "any":
        seqs = draw(gen.seqsets(kind=k, min_n=3, max_n=40, max_len=200))["seqs"]
    else:
        seqs = gen.expand_family(draw(st.integers(0, 2 ** 32 - 1)), alpha, draw(st.integers(100, 160 if not big else 300)),
                                 draw(st.integers(10, 80)), 0.15, draw(st.sampled_from([0.03, 0.08])), 0.2, tree=True)
    if len(seqs) < 3:
        seqs = seqs + [seqs[0][::-1] or "A"]
    kind = gen.expected_kind(seqs)
    cfg = {"type": draw(gen.types_for(kind)), "threads": draw(gen.threads)}
    cfg["gpo"], cfg["gpe"], cfg["tgpe"] = draw(gen.penalties())
    return {"seqs": seqs, "cfg": cfg, "shape": shape}


def strategy(tier):
    return cases(tier)


def rebuild(res, gaps):
    r = []
    for i, c in enumerate(res):
        r.append("-" * gaps[i])
        r.append(c)
    r.append("-" * gaps[len(res)])
    return "".join(r)


def huge_input(n, seed):
    """an unbalanced input: one tight cluster of ~80 % of the sequences and a smaller cluster carrying insertions, so that a
    non-root node with thousands of members receives gap columns from a later merge"""
    rnd = random.Random(seed)
    alpha = gen.AA
    anc = [rnd.choice(alpha) for _ in range(40)]
    n1 = int(n * 0.8)
    out = []
    for i in range(n):
        s = [c if rnd.random() > 0.06 else rnd.choice(alpha) for c in anc]
        if i >= n1:
            pos = 10 + (i % 3) * 9
            s[pos:pos] = [rnd.choice(alpha) for _ in range(3 + i % 5)]
            s = [c if rnd.random() > 0.15 else rnd.choice(alpha) for c in s]
        out.append("".join(s))
    rnd.shuffle(out)
    return out


def check(case):
    if "huge" in case:
        from vlib import sweeps
        case = {"seqs": huge_input(case["huge"], case["seed"]),
                "cfg": {"type": 5, "threads": 4, "gpo": -1.0, "gpe": -1.0, "tgpe": -1.0}, "shape": "huge"}
    seqs, cfg = case["seqs"], case["cfg"]
    n = len(seqs)
    names = ["s%d" % i for i in range(n)]
    try:
        r = kal.align_named(names, seqs, cfg, hook=(0, 1, 0))
    except kal.Failure as f:
        if f.ended.kind == "hang":
            return engine.discard("cpu-limit")
        return engine.violation({"what": "process failure", **f.detail()}, kind="crash")
    except kal.Rejected as e:
        return engine.violation({"what": "valid input rejected: " + e.what, "info": e.info}, kind="status")
    snaps = r["run"].get("snaps")
    if snaps is None:
        return engine.violation({"what": "no snapshots: hook not active"}, kind="harness")
    final = {}
    for q, row in zip(r["msa"]["seqs"], r["rows"]):
        final[q["rank"]] = row
    cl = ["shape=" + case["shape"], "threads>1" if cfg["threads"] > 1 else "threads=1"]
    if n >= 100:
        cl.append("n>=100")
    if len(snaps) != n - 1:
        return engine.violation({"what": "%d merge snapshots for %d sequences" % (len(snaps), n)}, classes=cl)
    inserted_later = False
    import numpy as np
    # per sequence: residues and the final column of every residue
    fcols, residues = {}, {}
    for rank, row in final.items():
        a = np.frombuffer(row.encode("latin-1"), dtype=np.uint8)
        fcols[rank] = np.nonzero(a != 45)[0]
        residues[rank] = row.replace("-", "")
    L = len(next(iter(final.values()))) if final else 0
    if any(len(r) != L for r in final.values()):
        return engine.violation({"what": "final rows have unequal lengths", "lens": sorted(set(len(r) for r in final.values()))[:5]}, classes=cl)
    for rank, res in residues.items():
        if res != seqs[rank]:
            return engine.violation({"what": "final row of input %d does not spell the input sequence (C01)" % rank}, classes=cl)
    for sn in snaps:
        mem = sn["members"]
        s_all, f_all = [], []
        width = None
        for m in mem:
            if m["rank"] not in fcols:
                return engine.violation({"what": "snapshot refers to a rank that is not in the final alignment", "node": sn["node"]}, classes=cl)
            g = np.asarray(m["gaps"], dtype=np.int64)
            n_res = len(g) - 1
            if n_res != len(fcols[m["rank"]]):
                return engine.violation({"what": "snapshot of node %d has %d gap counts for a sequence of %d residues" % (sn["node"], len(g), len(fcols[m["rank"]]))}, classes=cl)
            scol = np.cumsum(g[:-1]) + np.arange(n_res)           # snapshot column of every residue
            w = int(g.sum()) + n_res
            if width is None:
                width = w
            elif w != width:
                return engine.violation({"what": "snapshot rows of node %d have unequal lengths" % sn["node"], "lens": sorted({width, w})}, classes=cl)
            s_all.append(scol)
            f_all.append(fcols[m["rank"]])
        s_cat = np.concatenate(s_all)
        f_cat = np.concatenate(f_all)
        order = np.argsort(s_cat, kind="stable")
        s_sorted, f_sorted = s_cat[order], f_cat[order]
        same = s_sorted[1:] == s_sorted[:-1]
        # residues that shared a column at completion must share one at the end; different columns must keep their order
        bad = np.nonzero((same & (f_sorted[1:] != f_sorted[:-1])) | (~same & (f_sorted[1:] <= f_sorted[:-1])))[0]
        if len(bad):
            frows = [final[m["rank"]] for m in mem]
            srows = [rebuild(residues[m["rank"]], m["gaps"]) for m in mem]
            proj = oracle.strip_common_gap_columns(frows)
            snap = oracle.strip_common_gap_columns(srows)
            i = next((k for k, (x, y) in enumerate(zip(proj, snap)) if x != y), 0)
            return engine.violation({"what": "node %d (%d members): final rows projected onto the group differ from the group's alignment at completion" % (sn["node"], len(mem)),
                                     "member_rank": mem[i]["rank"], "at_completion": snap[i][:200], "final_projection": proj[i][:200],
                                     "cfg": cfg, "n": n}, classes=cl)
        if len(mem) >= 2 and len(mem) < n:
            used = np.unique(f_cat)
            if len(used) and (used[-1] - used[0] + 1) > len(np.unique(s_cat)):
                inserted_later = True
    if inserted_later:
        cl.append("later_insertion")
    return engine.ok(inserted_later, cl, {"n": n, "shape": case["shape"], "cfg": cfg, "seqs": [s[:40] for s in seqs[:3]],
                                          "nodes": len(snaps)})


# ------------------------------------------------------------------ enumerated size sweep

def extra(tier, seed, stats):
    from concurrent.futures import ThreadPoolExecutor
    from vlib import sweeps
    cases_ = []
    for n in sweeps.count_sweep(tier == "quick"):
        if n < 3:
            continue
        kind = "dna" if n % 2 else "protein"
        cases_.append({"seqs": sweeps.family(n, 15 + n % 25, kind, salt=seed, indel=0.08),
                       "cfg": {"type": 5, "threads": 1 + n % 4, "gpo": -1.0, "gpe": -1.0, "tgpe": -1.0}, "shape": "sweep_n"})
    with ThreadPoolExecutor(max_workers=12) as ex:
        res = list(ex.map(check, cases_))
    out = []
    for c, r in zip(cases_, res):
        stats.record(c, r)
        if r["status"] == "violation":
            out.append({"case": c, "detail": r["detail"], "kind": r.get("kind")})
    stats.extra["sweep"] = "every sequence count of the count sweep (vlib/sweeps.py), indel-rich families"
    # one very large input: member lists beyond 2048 / 4096 entries under non-root nodes
    for n in ([4400] if tier == "quick" else [4400, 8300]):
        big = {"huge": n, "seed": seed + 1}
        r = check(big)
        stats.record(big, r)
        if r["status"] == "ok":
            stats.classes["huge_input_nonroot_node>2048_members"] += 1
        if r["status"] == "violation":
            out.append({"case": {"huge": n, "seed": seed + 1}, "detail": r["detail"], "kind": r.get("kind")})
    return out
