"""C03 The alignment does not depend on the order of the input sequences."""
import random

from hypothesis import strategies as st

from vlib import engine, gen, kal, oracle

ID = "C03"
RULE = ("Named sets of 2..150 sequences (quick; thorough up to 400) on both sides of the 100-sequence switch, with many "
        "equal-length members (and sets of 513..1100 short records of mixed composition: protein as a whole, long runs of records nucleotide on their own) and exact duplicates under different names (so the name tie-break decides), pairwise distinct "
        "names (one case in four uses multi-word FASTA headers in which groups of records share their first word), and a permutation (Hypothesis permutation for small sets, reverse / rotate / seeded shuffle for large); type, "
        "penalties, threads; through read+run+dump and through the CLI (-o, FASTA); the input file is FASTA or, in half of the plain-name cases, an aligned FASTA / MSF / Clustal presentation of the same records (rows in the order under test). Oracle: row(name) and alignment length "
        "identical in both runs, rows in each run's own input order. Non-trivial = permutation != identity, >= 3 sequences, "
        "gaps present; distinct by hash of the case.")
ASSUMPTIONS = ["names pairwise distinct within their first 255 characters (the library compares MSA_NAME_LEN characters)"]
BUDGET = {"quick": dict(examples=500, workers=12, seconds=75), "thorough": dict(examples=1000, workers=16, seconds=600)}


@st.composite
def cases(draw, tier):
    big = tier == "thorough"
    shape = draw(st.sampled_from(["ties", "ties", "ties", "shifts", "shifts", "any", "any", "n100", "n100", "many", "many_mixed"]))
    k, alpha = draw(gen.alphabets())
    if shape == "ties":
        # equal lengths: substitutions only + duplicates under different names
        n = draw(st.integers(2, 30))
        L = draw(st.integers(1, 120))
        seed = draw(st.integers(0, 2 ** 32 - 1))
        rnd = random.Random(seed)
        anc = "".join(rnd.choice(alpha) for _ in range(L))
        seqs = []
        for _ in range(n):
            m = draw(st.sampled_from(["dup", "sub", "sub", "indel"]))
            if m == "dup" and seqs:
                seqs.append(rnd.choice(seqs))
            elif m == "indel":
                s = gen.mutate(rnd, anc, alpha, 0.1, 0.05, 0.05)
                seqs.append(s or anc)
            else:
                seqs.append("".join(rnd.choice(alpha) if rnd.random() < 0.2 else c for c in anc))
    elif shape == "many":
        seqs = gen.expand_random(draw(st.integers(0, 2 ** 32 - 1)), alpha, draw(st.sampled_from([511, 512, 513, 1024, 1025])), 2, draw(st.integers(2, 6)))
    elif shape == "shifts":
        # equal lengths again, but the members differ by shifts (a deletion paired with an insertion elsewhere): asymmetric
        # pairwise distances, co-optimal alignments - only the names may break such ties
        from props.c16 import tie_family
        seqs = tie_family(draw(st.integers(0, 2 ** 32 - 1)), alpha[:4] if k == "dna" else alpha[:20], draw(st.integers(3, 12)), draw(st.integers(20, 80)))
    elif shape == "many_mixed":
        # more records than the readers' 512-entry increments, of mixed composition: most records consist of A, C, G, T only,
        # the others of protein-only letters, so that the set as a whole is protein by the 1/4 rule while long runs of
        # records (whichever end up together) are nucleotide on their own: whatever is accumulated per record or per block
        # of the arrays must not depend on the order
        n = draw(st.sampled_from([513, 514, 520, 600, 1024, 1025, 1030, 1100]))
        rnd = random.Random(draw(st.integers(0, 2 ** 32 - 1)))
        frac = draw(st.sampled_from([0.3, 0.35, 0.5]))
        L = draw(st.integers(3, 8))
        seqs = ["".join(rnd.choice("DEFHIKLMPQRSVWY") for _ in range(L)) if rnd.random() < frac else "".join(rnd.choice("ACGT") for _ in range(L))
                for _ in range(n)]
        if draw(st.booleans()):
            seqs.sort(key=lambda x: x[0] in "ACGT")      # the protein-looking records first (a rotation moves them to the end)
    elif shape == "any":
        seqs = draw(gen.seqsets(kind=k, max_n=50, max_len=250))["seqs"]
    else:
        seqs = draw(gen.big_family(alpha, min_n=100, max_n=150 if not big else 400, max_len=60))
    nmode = draw(st.sampled_from(["plain", "plain", "plain", "words"]))
    if nmode == "plain":
        names = draw(gen.names_for(len(seqs)))
    else:
        # FASTA headers are whole lines: several words, groups of records sharing their first word(s)
        firsts = draw(st.lists(st.text(alphabet=gen.NAME_CHARS, min_size=1, max_size=8), min_size=1, max_size=3, unique=True))
        names = ["%s %s %d" % (firsts[i % len(firsts)], draw(st.sampled_from(["part", "chain", "x", "isoform A", ""])), i) for i in range(len(seqs))]
    n = len(seqs)
    pm = draw(st.sampled_from(["perm", "reverse", "rotate", "shuffle"]))
    if pm == "perm" and n <= 12:
        perm = list(draw(st.permutations(list(range(n)))))
    elif pm == "reverse":
        perm = list(range(n))[::-1]
    elif pm == "rotate":
        r = draw(st.integers(1, max(1, n - 1)))
        perm = list(range(n))[r:] + list(range(n))[:r]
    else:
        rnd = random.Random(draw(st.integers(0, 2 ** 32 - 1)))
        perm = list(range(n))
        rnd.shuffle(perm)
    kind = gen.expected_kind(seqs)
    cfg = {"type": draw(gen.types_for(kind)), "threads": draw(gen.threads)}
    cfg["gpo"], cfg["gpe"], cfg["tgpe"] = draw(gen.penalties())
    return {"names": names, "seqs": seqs, "perm": perm, "cfg": cfg, "entry": draw(st.sampled_from(["lib", "lib", "cli"])),
            "shape": shape,
            # the records may come as an alignment file (their gaps are irrelevant, C04): the order of the rows in it is the
            # order under test
            "infmt": draw(st.sampled_from(["fasta", "fasta", "fasta", "afa", "msf", "clu"])) if nmode == "plain" else "fasta",
            "inseed": draw(st.integers(0, 999))}


def strategy(tier):
    return cases(tier)


def run(names, seqs, cfg, entry, infmt="fasta", inseed=0):
    wd = kal.runner.workdir()
    if infmt != "fasta":
        from vlib import present
        ch = {"fmt": "fasta" if infmt == "afa" else infmt, "gapmode": "aligned", "gapfrac": 0.2, "seed": inseed, "width": 60,
              "kindletter": "P" if gen.expected_kind(seqs) == "protein" else "N"}
        fp = wd.write(present.render_chunk(names, seqs, ch).encode("latin-1"), ".in")
    else:
        fp = wd.write(kal.fasta_bytes(names, seqs, layout=kal.auto_layout(names, seqs)), ".fa")
    if entry == "lib":
        r = kal.run_files([fp], cfg)
        if r["read_rcs"] != [0] or r["run_rc"] != 0 or r["msa"] is None:
            raise kal.Rejected("read/run failed", {"read": r["read_rcs"], "run": r["run_rc"]})
        n, rows = kal.msa_rows(r["msa"])
        return n, rows
    en, text = kal.run_cli_files([fp], cfg, fmt="fasta")
    if en.rc != 0 or text is None:
        raise kal.Rejected("CLI failed", {"rc": en.rc, "stderr": en.err[-300:]})
    return kal.formats.parse_any("fasta", text)


def check(case):
    names, seqs, perm, cfg = case["names"], case["seqs"], case["perm"], case["cfg"]
    n = len(seqs)
    if n < 2 or len(set(x[:255] for x in names)) != n or sorted(perm) != list(range(n)):
        return engine.discard("malformed case")
    cl = ["entry=" + case["entry"], "shape=" + case["shape"]]
    if n >= 100:
        cl.append("n>=100")
    if len(set(len(s) for s in seqs)) < n:
        cl.append("length_ties")
    if len(set(seqs)) < n:
        cl.append("duplicates")
    if any(" " in x for x in names):
        cl.append("names_with_blanks")
    try:
        infmt = case.get("infmt", "fasta")
        if infmt != "fasta" and (any(not x for x in seqs) or max(len(x) for x in names) > 200):
            infmt = "fasta"
        if infmt != "fasta":
            cl.append("input=" + infmt)
        n1, r1 = run(names, seqs, cfg, case["entry"], infmt, case.get("inseed", 0))
        n2, r2 = run([names[i] for i in perm], [seqs[i] for i in perm], cfg, case["entry"], infmt, case.get("inseed", 0) + 1)
    except kal.Failure as f:
        if f.ended.kind == "hang":
            return engine.discard("cpu-limit (inconclusive; hangs are judged by C05)")
        return engine.violation({"what": "process failure", **f.detail()}, kind="crash")
    except kal.Rejected as e:
        return engine.violation({"what": "valid input rejected: " + e.what, "info": e.info}, kind="status")
    if n1 != names or n2 != [names[i] for i in perm]:
        return engine.violation({"what": "rows are not in the run's own input order", "got": n2[:6], "want": [names[i] for i in perm][:6]}, classes=cl)
    m1 = dict(zip(n1, r1))
    m2 = dict(zip(n2, r2))
    for nm in names:
        if m1[nm] != m2[nm]:
            return engine.violation({"what": "row of %r differs after permuting the input" % nm[:40], "run1": m1[nm][:160],
                                     "run2": m2[nm][:160], "len1": len(m1[nm]), "len2": len(m2[nm]), "cfg": cfg,
                                     "n": n}, classes=cl)
    nt = perm != list(range(n)) and n >= 3 and oracle.has_gap(r1)
    return engine.ok(nt, cl, {"n": n, "names": names[:3], "seqs": [s[:40] for s in seqs[:3]], "perm": perm[:10], "cfg": cfg,
                              "entry": case["entry"]})


# ------------------------------------------------------------------ enumerated size sweep

def extra(tier, seed, stats):
    from concurrent.futures import ThreadPoolExecutor
    from vlib import sweeps
    cases_ = []
    for n in sweeps.count_sweep(tier == "quick"):
        kind = "dna" if n % 2 else "protein"
        # equal lengths (substitutions only) so that the name tie-break is what orders the sequences
        base = sweeps.family(n, 10 + n % 9, kind, salt=seed, indel=0.0)
        L = min(len(x) for x in base)
        seqs = [x[:L] for x in base]
        names = ["q%d" % ((i * 37) % n) for i in range(n)] if n % 3 else ["r%03d" % i for i in range(n)]
        if len(set(names)) != n:
            names = ["u%d" % i for i in range(n)]
        perm = list(range(n))[::-1] if n % 2 else list(range(n))[n // 2:] + list(range(n))[:n // 2]
        cases_.append({"names": names, "seqs": seqs, "perm": perm, "cfg": {"type": 5, "threads": 1 + n % 3, "gpo": -1.0, "gpe": -1.0, "tgpe": -1.0},
                       "entry": "lib", "shape": "sweep_n"})
    with ThreadPoolExecutor(max_workers=12) as ex:
        res = list(ex.map(check, cases_))
    out = []
    for c, r in zip(cases_, res):
        stats.record(c, r)
        if r["status"] == "violation":
            out.append({"case": c, "detail": r["detail"], "kind": r.get("kind")})
    stats.extra["sweep"] = "every sequence count of the count sweep (vlib/sweeps.py) with equal-length sequences, reversed / rotated order"
    return out
