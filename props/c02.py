"""C02 Same alignment for every thread count and every schedule."""
import os
import random

from hypothesis import strategies as st

from vlib import build, engine, gen, kal, runner

ID = "C02"
TRUST_SINGLE = True   # a differing alignment observed once is a fact, even if the schedule does not recur
RULE = ("Inputs aimed at each parallel region: (a) 100..400 short sequences (k-means restarts as tasks + distance loops), "
        "(b) 20..99 sequences (tree-parallel merges), (c) 2..6 sequences of 500..2500 columns (forward/backward halves as "
        "tasks), (d) mixtures; for each input a reference run (n_threads=1, no delays) and 4..8 runs (quick; thorough up to 20) with thread counts "
        "from {1,2,3,4,7,8,16,32,64}, OpenMP environments (OMP_MAX_ACTIVE_LEVELS 1..3, OMP_WAIT_POLICY, OMP_DYNAMIC, "
        "GOMP_SPINCOUNT, nested team sizes via OMP_NUM_THREADS lists, OMP_THREAD_LIMIT, OMP_PROC_BIND, OMP_SCHEDULE) and a Hypothesis-drawn delay table (<= 16 entries: event kind, key modulus/residue, action none / "
        "yield / 50us / 1ms / 10ms, how many matching events; total injected delay capped at 0.6 s per run) applied inside the guarded hook, plus one run of the library built without OpenMP. Oracle: "
        "(1) rows byte-identical to the reference, (2) same for the no-OpenMP build, (3) event-log invariants of every run: "
        "MERGE_END(child) precedes MERGE_BEGIN(parent) for both children of every node; for every DP step FWD_END and BWD_END "
        "precede MEETUP. (4) ThreadSanitizer + Archer (clang/libomp build) on 9 (quick) / 48 (thorough) further inputs covering the three regions: a data-race report with a kalign frame is a violation. Non-trivial = the event log shows >= 2 distinct threads "
        "and >= 1 pair of overlapping merge intervals or overlapping forward/backward halves; distinct by case hash.")
ASSUMPTIONS = ["schedules are sampled (thread counts, environments, injected delays, repetitions), not enumerated",
               "hook sequence numbers are taken with one atomic increment at event entry, so log order respects happens-before"]
BUDGET = {"quick": dict(examples=16, workers=8, seconds=90), "thorough": dict(examples=160, workers=8, seconds=1100)}

THREADS = [1, 2, 3, 4, 7, 8, 16, 32, 64]
EV = {"MERGE_BEGIN": 1, "MERGE_END": 2, "FWD_BEGIN": 3, "FWD_END": 4, "BWD_BEGIN": 5, "BWD_END": 6, "MEETUP": 7}


@st.composite
def run_specs(draw):
    th = draw(st.sampled_from(THREADS))
    env = {"OMP_MAX_ACTIVE_LEVELS": str(draw(st.sampled_from([1, 2, 2, 3])))}
    if th <= 8 and draw(st.integers(0, 3)) == 0:
        env["OMP_WAIT_POLICY"] = "active"
        env["GOMP_SPINCOUNT"] = draw(st.sampled_from(["0", "1000", "100000"]))
    if draw(st.integers(0, 3)) == 0:
        env["OMP_DYNAMIC"] = draw(st.sampled_from(["true", "false"]))
    if draw(st.integers(0, 4)) == 0:
        # sizes of nested teams / a global cap below the request / thread placement
        k = draw(st.sampled_from(["OMP_NUM_THREADS", "OMP_THREAD_LIMIT", "OMP_PROC_BIND", "OMP_SCHEDULE"]))
        env[k] = draw(st.sampled_from({"OMP_NUM_THREADS": ["4,2", "2,4", "8,2,2", "3"], "OMP_THREAD_LIMIT": ["2", "3", "5"],
                                       "OMP_PROC_BIND": ["true", "close", "spread", "false"], "OMP_SCHEDULE": ["dynamic,1", "guided", "static,1"]}[k]))
    nd = draw(st.integers(0, 16))
    delays = []
    for _ in range(nd):
        ev = draw(st.sampled_from([1, 1, 2, 3, 3, 5, 5, 4, 6, 7]))
        mod = draw(st.sampled_from([1, 2, 3, 5]))
        act = draw(st.sampled_from([1, 2, 2, 3, 3, 4]))
        cnt = draw(st.sampled_from([1, 3, 10, 40])) if act != 4 else draw(st.sampled_from([1, 2, 5]))
        delays.append([ev, mod, draw(st.integers(0, mod - 1)), act, cnt])
    return {"threads": th, "env": env, "delays": delays, "variant": draw(st.sampled_from(["plain", "plain", "asan"]))}


@st.composite
def cases(draw, tier):
    big = tier == "thorough"
    k, alpha = draw(gen.alphabets())
    region = draw(st.sampled_from(["kmeans", "tree", "halves", "halves", "mix"]))
    seed = draw(st.integers(0, 2 ** 32 - 1))
    if region == "kmeans":
        seqs = gen.expand_family(seed, alpha, draw(st.integers(100, 400 if big else 220)), draw(st.integers(10, 70)), 0.2, 0.05, 0.2)
    elif region == "tree":
        seqs = gen.expand_family(seed, alpha, draw(st.integers(20, 99)), draw(st.integers(20, 200)), 0.2, 0.05, 0.2)
    elif region == "halves":
        seqs = gen.expand_family(seed, alpha, draw(st.integers(2, 6)), draw(st.integers(520, 2500 if big else 1400)), 0.15, 0.03, 0.0)
    else:
        seqs = gen.expand_family(seed, alpha, draw(st.integers(8, 40)), draw(st.integers(520, 900)), 0.2, 0.04, 0.1)
    kind = gen.expected_kind(seqs)
    cfg = {"type": draw(gen.types_for(kind))}
    cfg["gpo"], cfg["gpe"], cfg["tgpe"] = draw(gen.penalties())
    nruns = draw(st.integers(4, 8 if not big else 20))
    runs = [draw(run_specs()) for _ in range(nruns)]
    return {"seqs": seqs, "cfg": cfg, "region": region, "runs": runs, "entry": draw(st.sampled_from(["file", "file", "file", "arr"]))}


def strategy(tier):
    return cases(tier)


def check_events(events, numseq):
    """-> (violation text or None, stats dict)"""
    events = sorted(events, key=lambda e: e[0])
    merge_end = {}
    threads = set()
    open_merges = 0
    overlap_merge = 0
    per_obj = {}
    overlap_halves = 0
    for seq, ev, th, obj, i, j, k in events:
        threads.add(th)
        if ev == 1:
            for child in (i, j):
                if child >= numseq and child not in merge_end:
                    return "merge of node %d began (event %d) before its child node %d was complete" % (k, seq, child), None
            if open_merges > 0:
                overlap_merge += 1
            open_merges += 1
        elif ev == 2:
            merge_end[k] = seq
            open_merges -= 1
        else:
            st_ = per_obj.setdefault(obj, {"f": 0, "b": 0, "m": 0, "fo": False, "bo": False})
            if ev == 3:
                st_["fo"] = True
                if st_["bo"]:
                    overlap_halves += 1
            elif ev == 5:
                st_["bo"] = True
                if st_["fo"]:
                    overlap_halves += 1
            elif ev == 4:
                st_["f"] += 1
                st_["fo"] = False
            elif ev == 6:
                st_["b"] += 1
                st_["bo"] = False
            elif ev == 7:
                st_["m"] += 1
                if st_["f"] < st_["m"] or st_["b"] < st_["m"]:
                    return ("meet-up number %d of a DP object ran (event %d) when only %d forward and %d backward passes had "
                            "finished" % (st_["m"], seq, st_["f"], st_["b"])), None
    return None, {"threads": len(threads), "overlap_merge": overlap_merge, "overlap_halves": overlap_halves, "events": len(events)}


def one_run(seqs, names, cfg, spec, entry, want_events, variant=None):
    c = dict(cfg, threads=spec["threads"])
    v = variant or spec["variant"]
    if entry == "arr":
        r = kal.align_arr(seqs, c, variant=v, env=spec["env"])
        return r["rows"], None
    r = kal.align_named(names, seqs, c, variant=v, env=spec["env"], hook=(1, 0, 0) if want_events else None, delays=spec["delays"])
    return r["rows"], r["run"].get("events")


def check(case):
    seqs, cfg = case["seqs"], case["cfg"]
    n = len(seqs)
    names = ["s%d" % i for i in range(n)]
    cl = ["region=" + case["region"], "entry=" + case["entry"]]
    ref_spec = {"threads": 1, "env": {}, "delays": [], "variant": "plain"}
    try:
        ref, _ = one_run(seqs, names, cfg, ref_spec, case["entry"], False)
    except kal.Failure as f:
        if f.ended.kind == "hang":
            return engine.discard("cpu-limit")
        return engine.violation({"what": "process failure in the reference run", **f.detail()}, kind="crash")
    except kal.Rejected as e:
        return engine.discard("reference run rejected (other properties): " + e.what)
    agg = {"threads": 0, "overlap_merge": 0, "overlap_halves": 0}
    for ri, spec in enumerate(case["runs"]):
        try:
            rows, events = one_run(seqs, names, cfg, spec, case["entry"], True)
        except kal.Failure as f:
            if f.ended.kind == "hang":
                return engine.discard("cpu-limit")
            return engine.violation({"what": "process failure in run %d" % ri, "spec": spec, **f.detail()}, kind="crash", classes=cl)
        except kal.Rejected as e:
            return engine.violation({"what": "run %d failed although the 1-thread run succeeded: %s" % (ri, e.what), "spec": spec}, classes=cl, kind="status")
        if rows != ref:
            i = [k for k, (a, b) in enumerate(zip(rows, ref)) if a != b]
            return engine.violation({"what": "alignment with %d threads differs from the 1-thread alignment" % spec["threads"], "spec": spec,
                                     "rows_differing": len(i), "ref_len": len(ref[0]), "got_len": len(rows[0]) if rows else None,
                                     "ref": ref[i[0]][:120] if i else None, "got": rows[i[0]][:120] if i else None}, classes=cl)
        if events is not None:
            bad, st_ = check_events(events, n)
            if bad:
                return engine.violation({"what": bad, "spec": spec}, classes=cl)
            agg["threads"] = max(agg["threads"], st_["threads"])
            agg["overlap_merge"] += st_["overlap_merge"]
            agg["overlap_halves"] += st_["overlap_halves"]
    try:
        rows, _ = one_run(seqs, names, cfg, {"threads": 4, "env": {}, "delays": [], "variant": "noomp"}, case["entry"], False, variant="noomp")
    except kal.Failure as f:
        return engine.violation({"what": "process failure in the build without OpenMP", **f.detail()}, kind="crash", classes=cl)
    except kal.Rejected as e:
        return engine.violation({"what": "build without OpenMP failed: " + e.what}, classes=cl, kind="status")
    if rows != ref:
        return engine.violation({"what": "alignment from the build without OpenMP differs from the OpenMP build's 1-thread alignment"}, classes=cl)
    if agg["overlap_merge"]:
        cl.append("overlapping_merges")
    if agg["overlap_halves"]:
        cl.append("overlapping_halves")
    if agg["threads"] >= 2:
        cl.append("threads_seen>=2")
    nt = agg["threads"] >= 2 and (agg["overlap_merge"] > 0 or agg["overlap_halves"] > 0)
    return engine.ok(nt, cl, {"region": case["region"], "n": n, "maxlen": max(len(s) for s in seqs), "cfg": cfg,
                              "runs": [{"threads": s["threads"], "env": s["env"], "delays": len(s["delays"])} for s in case["runs"]][:4],
                              "observed": agg})


# ------------------------------------------------------------------ thorough: ThreadSanitizer + Archer

def sweep_leg(tier, seed, stats):
    """thresholds of the parallel regions, enumerated: 90..110 sequences (k-means switch) and 2-sequence inputs of
    490..519 columns (serial / parallel Hirschberg switch); 4 threads with nested teams against 1 thread"""
    from concurrent.futures import ThreadPoolExecutor
    from vlib import sweeps
    cases_ = []
    for n in range(90, 111):
        cases_.append({"seqs": sweeps.family(n, 25, "dna" if n % 2 else "protein", salt=seed), "cfg": {"type": 5, "gpo": -1.0, "gpe": -1.0, "tgpe": -1.0},
                       "region": "sweep_n", "entry": "file",
                       "runs": [{"threads": 4, "env": {"OMP_MAX_ACTIVE_LEVELS": "2"}, "delays": [], "variant": "plain"},
                                {"threads": 3, "env": {}, "delays": [[1, 2, 0, 2, 10]], "variant": "plain"}]})
    for L in list(range(490, 520)) + ([1000, 1024, 1025] if tier == "quick" else list(range(990, 1040))):
        cases_.append({"seqs": sweeps.family(3, L, "dna" if L % 2 else "protein", salt=seed, indel=0.01), "cfg": {"type": 5, "gpo": -1.0, "gpe": -1.0, "tgpe": -1.0},
                       "region": "sweep_len", "entry": "file",
                       "runs": [{"threads": 4, "env": {"OMP_MAX_ACTIVE_LEVELS": "2"}, "delays": [[5, 1, 0, 3, 5]], "variant": "plain"},
                                {"threads": 2, "env": {"OMP_MAX_ACTIVE_LEVELS": "3"}, "delays": [[3, 1, 0, 2, 20]], "variant": "plain"}]})
    # thread ladder: anything computed from the team size (batch widths, chunk sizes, task cut-offs) shows as a step between
    # two neighbouring thread counts; large k-means inputs and a long pair, every count of the ladder against 1 thread
    ladder = [2, 3, 4, 5, 6, 7, 8, 9, 12, 15, 16, 17, 31, 32, 33, 64]
    for n, L in ((130, 30), (260, 24), (400, 20), (700, 16), (1000, 12)) + (((1600, 12), (2500, 10)) if tier != "quick" else ()):
        cases_.append({"seqs": sweeps.family(n, L, "protein" if n % 200 else "dna", salt=seed + 7), "cfg": {"type": 5, "gpo": -1.0, "gpe": -1.0, "tgpe": -1.0},
                       "region": "ladder_n", "entry": "file",
                       "runs": [{"threads": t, "env": {"OMP_MAX_ACTIVE_LEVELS": "2"} if t % 2 else {}, "delays": [], "variant": "plain"} for t in ladder]})
    cases_.append({"seqs": sweeps.family(4, 1500, "dna", salt=seed + 9, indel=0.01), "cfg": {"type": 5, "gpo": -1.0, "gpe": -1.0, "tgpe": -1.0},
                   "region": "ladder_len", "entry": "file",
                   "runs": [{"threads": t, "env": {"OMP_MAX_ACTIVE_LEVELS": "3"}, "delays": [], "variant": "plain"} for t in ladder]})
    with ThreadPoolExecutor(max_workers=6) as ex:
        res = list(ex.map(check, cases_))
    out = []
    for c, r in zip(cases_, res):
        stats.record(c, r)
        if r["status"] == "violation":
            out.append({"case": c, "detail": r["detail"], "kind": r.get("kind")})
    stats.extra["sweep"] = ("90..110 sequences and 490..519-column inputs enumerated (4/3/2 threads, nested teams, delays) against the 1-thread run; "
                            "thread ladder 2..64 (16 counts) on 130..1000-sequence inputs and a 1500-column input")
    return out


def extra(tier, seed, stats):
    out = sweep_leg(tier, seed, stats)
    rnd = random.Random(seed)
    archer = "/usr/lib/llvm-14/lib/libarcher.so"
    env = {"OMP_MAX_ACTIVE_LEVELS": "2", "OMP_WAIT_POLICY": "passive"}
    if os.path.exists(archer):
        env["OMP_TOOL_LIBRARIES"] = archer
    n_cases = 9 if tier != "thorough" else 48
    for ci in range(n_cases):
        alpha = gen.NUC if ci % 2 == 0 else gen.AA
        if ci % 3 == 0:
            seqs = gen.expand_family(rnd.randrange(2 ** 32), alpha, rnd.randint(100, 160), rnd.randint(20, 60), 0.2, 0.05, 0.2)
        elif ci % 3 == 1:
            seqs = gen.expand_family(rnd.randrange(2 ** 32), alpha, rnd.randint(3, 8), rnd.randint(520, 900), 0.15, 0.03, 0.0)
        else:
            seqs = gen.expand_family(rnd.randrange(2 ** 32), alpha, rnd.randint(20, 60), rnd.randint(60, 200), 0.2, 0.05, 0.2)
        names = ["s%d" % i for i in range(len(seqs))]
        th = rnd.choice([2, 4, 8])
        case = {"seqs": seqs, "cfg": {"type": 5, "gpo": -1.0, "gpe": -1.0, "tgpe": -1.0}, "region": "tsan", "entry": "file",
                "runs": [{"threads": th, "env": {"OMP_MAX_ACTIVE_LEVELS": "2"}, "delays": [], "variant": "plain"}]}
        wd = runner.workdir()
        fp = wd.write(kal.fasta_bytes(names, seqs), ".fa")
        pr = runner.run_probe(["read 0 1 %s" % fp, "run 0 %d 5 -1 -1 -1" % th, "free 0"], variant="tsan", env=env, cpu=600)
        stats.evaluations += 1
        stats.classes["tsan_runs"] += 1
        err = pr.ended.err or ""
        if "WARNING: ThreadSanitizer: data race" in err and ("/repo/" in err or "kalign" in err):
            out.append({"case": case, "detail": {"what": "ThreadSanitizer data race in kalign code", "stderr": err[:2500]}, "kind": "tsan"})
        elif pr.ended.kind.startswith("signal") or pr.ended.kind == "hang":
            stats.discards["tsan run inconclusive (%s)" % pr.ended.kind] += 1
        else:
            stats.nontrivial.add("tsan:%d" % ci)
    return out
