"""C04 The result depends only on names and residues, not on how they are presented."""
from hypothesis import strategies as st

from vlib import engine, formats, gen, kal, oracle, present, runner

ID = "C04"
RULE = ("Base records (names from [A-Za-z0-9_.|-], sequence sets as in C01) are presented canonically (one FASTA file, one "
        "line per sequence) and re-presented by independent writers: records split in order over 1..4 files (including files with a single record and empty files), each file with "
        "its own format (FASTA / aligned FASTA / PileUp-style MSF / !!AA|NA MSF / Clustal W with conservation lines and "
        "optional residue counts), line width 1..200, CRLF, missing final line terminator, trailing blanks, blank lines, leading blank lines, gap characters "
        "('-', '.', '~') inserted at random or as an equal-length alignment up to 95 % gaps; library (repeated "
        "kalign_read_input) and CLI (stdin + -i + positionals). Oracle: rows by name and order identical to the canonical run "
        "with the same options. Non-trivial = presentation differs in >= 1 dimension and the result has gaps.")
ASSUMPTIONS = ["every file is on its own recognisable as the same kind as the whole set (C13 premise holds per file): per-file "
               "kind detection rejects mixed kinds by design",
               "no TAB/control characters inside sequence lines (the reader cuts a line there)",
               "names <= 60 characters without blanks (MSF/Clustal names end at the first blank)"]
BUDGET = {"quick": dict(examples=400, workers=12, seconds=80), "thorough": dict(examples=1000, workers=16, seconds=700)}


@st.composite
def chunk_specs(draw, thorough):
    fmt = draw(st.sampled_from(["fasta", "fasta", "msf", "clu"]))
    ch = {"fmt": fmt, "seed": draw(st.integers(0, 2 ** 16))}
    ch["gapmode"] = draw(st.sampled_from(["none", "random", "aligned", "tail"])) if fmt == "fasta" else "aligned"
    ch["tailmix"] = draw(st.booleans())
    ch["gapfrac"] = draw(st.sampled_from([0.05, 0.3, 0.6, 0.85, 0.95]))
    ch["eol"] = draw(st.sampled_from(["\n", "\n", "\r\n"]))
    ch["final_eol"] = draw(st.sampled_from([True, True, True, False]))
    if draw(st.integers(0, 14)) == 0 and ch["gapmode"] != "none":
        # very long physical lines: the alignment padded to 65000..70000 columns and written as one unwrapped block
        ch["min_width"] = draw(st.sampled_from([65534, 65535, 65536, 66000, 70000]))
        ch["unwrapped"] = True
        ch["gapmode"] = "aligned"
        if fmt == "fasta":
            ch["width"] = 0
    if fmt == "fasta":
        ch["width"] = draw(st.sampled_from([0, 1, 7, 59, 60, 61, 80, 200]))
        ch["trail"] = draw(st.sampled_from(["", "", " ", "   "]))
        ch["blank"] = draw(st.sampled_from([0, 0, 1, 2]))
        ch["lead_blank"] = draw(st.sampled_from([0, 0, 0, 1, 3, 5]))
        ch["gapchar"] = draw(st.sampled_from(["-", "."]))
    elif fmt == "msf":
        ch["width"] = draw(st.sampled_from([50, 50, 60, 30]))
        ch["group"] = draw(st.sampled_from([10, 10, 0]))
        ch["gapchar"] = draw(st.sampled_from([".", "-", "~"]))
        ch["pileup"] = draw(st.booleans())
        ch["ruler"] = draw(st.booleans())
    else:
        ch["width"] = draw(st.sampled_from([60, 60, 50, 13]))
        ch["cons"] = draw(st.booleans())
        ch["counts"] = draw(st.booleans())
        ch["clu_group"] = draw(st.sampled_from([0, 0, 0, 10, 3]))      # row text padded with blanks between groups of residues
        ch["header"] = draw(st.sampled_from(["CLUSTAL W (1.83) multiple sequence alignment",
                                             "CLUSTAL O(1.2.4) multiple sequence alignment",
                                             "MUSCLE (3.7) multiple sequence alignment"]))
    return ch


@st.composite
def cases(draw, tier):
    thorough = tier == "thorough"
    if draw(st.integers(0, 11)) == 0:
        # around the readers' array increments (512 sequences per msa, merge across files)
        k0, alpha = draw(gen.alphabets())
        n0 = draw(st.sampled_from([511, 512, 513, 600, 1024, 1025]))
        sq = gen.expand_random(draw(st.integers(0, 2 ** 32 - 1)), alpha, n0, 2, draw(st.integers(2, 6)))
        ss = {"kind": gen.expected_kind(sq), "seqs": sq, "shape": "many"}
    elif draw(st.integers(0, 9)) == 0:
        # rows longer than the readers' 512-residue buffer increments, so that re-presentations cross them
        k0, alpha = draw(gen.alphabets())
        sq = draw(gen.big_family(alpha, min_n=2, max_n=5, max_len=draw(st.sampled_from([530, 700, 1040, 1100]))))
        ss = {"kind": gen.expected_kind(sq), "seqs": sq, "shape": "long"}
    else:
        ss = draw(gen.seqsets(max_n=40 if not thorough else 120, max_len=200 if not thorough else 700, case=True))
    seqs = ss["seqs"]
    n = len(seqs)
    names = draw(gen.names_for(n, max_len=30, long_names=False))
    k = draw(st.sampled_from([1, 1, 2, 3, 4]))
    odd = draw(st.integers(0, 3)) == 0   # allow single-record and empty files
    if odd:
        k = max(2, k)
        cuts = sorted(draw(st.lists(st.integers(0, n), min_size=k - 1, max_size=k - 1)))
    else:
        k = max(1, min(k, n // 2))
        # split in order into k chunks of >= 2 records
        cuts = sorted(draw(st.lists(st.integers(2, max(2, n - 2)), min_size=k - 1, max_size=k - 1, unique=True))) if k > 1 else []
    bounds = [0] + cuts + [n]
    chunks = []
    for a, b in zip(bounds, bounds[1:]):
        ch = draw(chunk_specs(thorough))
        ch["range"] = [a, b]
        chunks.append(ch)
    cfg = {"type": draw(gen.types_for(ss["kind"])), "threads": draw(gen.threads)}
    cfg["gpo"], cfg["gpe"], cfg["tgpe"] = draw(gen.penalties())
    entry = draw(st.sampled_from(["lib", "lib", "cli", "cli_stdin"]))
    return {"names": names, "seqs": seqs, "chunks": chunks, "cfg": cfg, "entry": entry, "kind": ss["kind"]}


def strategy(tier):
    return cases(tier)


def check(case):
    names, seqs, cfg, chunks = case["names"], case["seqs"], case["cfg"], case["chunks"]
    n = len(seqs)
    kind = gen.expected_kind(seqs)
    if kind is None:
        return engine.discard("kind not determined by a C13 premise")
    for ch in chunks:
        a, b = ch["range"]
        if b - a == 0:
            continue
        if gen.expected_kind(seqs[a:b]) != kind:
            return engine.discard("a file on its own is not recognisable as the set's kind")
        ch["kindletter"] = "P" if kind == "protein" else "N"
    cl = ["entry=" + case["entry"], "files=%d" % len(chunks)]
    if n >= 512:
        cl.append("n>=512")
    if max(len(x) for x in seqs) >= 512:
        cl.append("len>=512")
    for ch in chunks:
        a, b = ch["range"]
        if b - a == 0:
            cl.append("empty_file")
            continue
        if b - a == 1:
            cl.append("single_record_file")
        cl.append("fmt=" + ch["fmt"])
        if ch["gapmode"] != "none":
            cl.append("gapped")
            if ch["gapfrac"] > 0.8:
                cl.append("gapfrac>0.8")
        if ch["eol"] == "\r\n":
            cl.append("crlf")
        if not ch.get("final_eol", True):
            cl.append("no_final_newline")
        if ch.get("min_width"):
            cl.append("line>=65534_chars")
        if ch["fmt"] == "fasta" and ch["width"] not in (0, 60):
            cl.append("wrap")
    cl = sorted(set(cl))
    wd = runner.workdir()
    canon = wd.write(kal.fasta_bytes(names, seqs, width=0), ".fa")
    files = []
    for ch in chunks:
        a, b = ch["range"]
        if b - a == 0:
            files.append(wd.write(b"" if ch["seed"] % 2 else b"\n", ".empty"))
            continue
        body = present.render_chunk(names[a:b], seqs[a:b], ch)
        if not ch.get("final_eol", True):
            body = body.rstrip("\r\n")           # last byte of the file is not a line terminator
        files.append(wd.write(body.encode("latin-1"), "." + ch["fmt"]))
    try:
        if case["entry"] == "lib":
            r0 = kal.run_files([canon], cfg)
            r1 = kal.run_files(files, cfg)
            for r, what in ((r0, "canonical"), (r1, "re-presented")):
                if any(x != 0 for x in r["read_rcs"]) or r["run_rc"] != 0 or r["msa"] is None:
                    return engine.violation({"what": "%s input rejected" % what, "read": r["read_rcs"], "run": r["run_rc"],
                                             "chunks": chunks}, classes=cl, kind="status")
            n0, rows0 = kal.msa_rows(r0["msa"])
            n1, rows1 = kal.msa_rows(r1["msa"])
        else:
            e0, t0 = kal.run_cli_files([canon], cfg, fmt="fasta")
            if case["entry"] == "cli_stdin":
                with open(files[0], "rb") as fh:
                    sin = fh.read()
                rest = files[1:]
                args = (["-i", rest[0]] + rest[1:]) if rest else []
                e1, t1 = kal.run_cli_files(args, cfg, fmt="fasta", stdin=sin)
            else:
                args = ["-i", files[0]] + files[1:]
                e1, t1 = kal.run_cli_files(args, cfg, fmt="fasta")
            for e, t, what in ((e0, t0, "canonical"), (e1, t1, "re-presented")):
                if e.rc != 0 or t is None:
                    return engine.violation({"what": "%s input rejected by the CLI" % what, "rc": e.rc, "stderr": e.err[-300:],
                                             "chunks": chunks}, classes=cl, kind="status")
            n0, rows0 = formats.parse_any("fasta", t0)
            n1, rows1 = formats.parse_any("fasta", t1)
    except kal.Failure as f:
        if f.ended.kind == "hang":
            return engine.discard("cpu-limit (inconclusive; hangs are judged by C05)")
        return engine.violation({"what": "process failure", **f.detail(), "chunks": chunks}, kind="crash")
    if n0 != names:
        return engine.violation({"what": "canonical run does not return the input names in order (C01)", "got": n0[:5]}, classes=cl)
    if n1 != names:
        return engine.violation({"what": "re-presented input yields different names/order", "got": n1[:6], "want": names[:6],
                                 "count": [len(n1), len(names)], "chunks": chunks}, classes=cl)
    for i, (a, b) in enumerate(zip(rows0, rows1)):
        if a != b:
            return engine.violation({"what": "row %d (%s) differs between canonical and re-presented input" % (i, names[i][:30]),
                                     "canonical": a[:160], "represented": b[:160], "chunks": chunks, "cfg": cfg}, classes=cl)
    differs = len(chunks) > 1 or any(ch["fmt"] != "fasta" or ch["gapmode"] != "none" or ch["width"] != 0 or ch["eol"] != "\n"
                                     or ch.get("trail") or ch.get("blank") or ch.get("lead_blank") for ch in chunks) or case["entry"] == "cli_stdin"
    return engine.ok(differs and oracle.has_gap(rows0), cl,
                     {"n": n, "names": names[:3], "seqs": [s[:40] for s in seqs[:3]], "chunks": chunks, "entry": case["entry"], "cfg": cfg})
