"""C13 Nucleotide and protein inputs are recognised from their residue letters."""
import random

from hypothesis import strategies as st

from vlib import engine, formats, gen, kal, runner

ID = "C13"
RULE = ("Compositions are generated as letter->count tables satisfying premise 1 (only ACGTUN, either case) or premise 2 "
        "(>= 1/4 of residues from DEFHIKLMPQRSVWY, the rest from all 26 letters; lower-case rates drawn independently for the protein-only letters and the rest: 0, 2 %, 50 %, 98 %, 100 %), including exact-boundary "
        "tables (protein-only fraction exactly 1/4 with the remainder on one letter), then laid out as 2..40 sequences in "
        "a drawn order with drawn names; observed through kalign_arr_to_msa (array; the buffers carry text of the other kind behind the given lengths) and the FASTA/MSF/Clustal readers, "
        "also as gapped presentations (up to 95% gap characters; in FASTA files the padding is one of - . ~ _ * ^ = + : [ ] `); FASTA input is in one file or split over 2..3 files read into one object; a quarter of the cases are observed after 1..3 earlier calls (array or file input of either kind, up to 18000 residues) in the same process. Oracle: reported biotype == expected kind, and equal "
        "after permuting and renaming the sequences; for inputs of <= 300 residues the run must accept the alignment type of the expected kind and reject the other. extra(): totals of 120000..1200000 residues (thorough ..4500000) enumerated for five alphabets; boundary compositions enumerated exhaustively for all "
        "(protein-only letter, filler letter) pairs. Non-trivial = >= 2 distinct letters; distinct by composition+layout hash.")
ASSUMPTIONS = ["compositions satisfying neither premise are not judged",
               "letters kalign's readers drop (non-alphabetic) are not residues"]
BUDGET = {"quick": dict(examples=500, workers=12, seconds=60), "thorough": dict(examples=2500, workers=16, seconds=480)}

PONLY = "DEFHIKLMPQRSVWY"
ALL = "ABCDEFGHIKLMNPQRSTVWYXZUJO"


@st.composite
def cases(draw, tier):
    premise = draw(st.sampled_from([1, 2, 2]))
    total = draw(st.one_of(st.integers(2, 40), st.integers(2, 400), st.integers(2, 4000)))
    rnd = random.Random(draw(st.integers(0, 2 ** 32 - 1)))
    if premise == 1:
        letters = draw(st.lists(st.sampled_from("ACGTUNacgtun"), min_size=1, max_size=8, unique=True))
        res = [rnd.choice(letters) for _ in range(total)]
    else:
        mode = draw(st.sampled_from(["boundary", "boundary_u", "mixed", "rich"]))
        if mode == "boundary" or mode == "boundary_u":
            total = max(4, total - total % 4)
            np = total // 4
        elif mode == "mixed":
            np = draw(st.integers((total + 3) // 4, total))
        else:
            np = total
        pl = draw(st.lists(st.sampled_from(PONLY), min_size=1, max_size=6, unique=True))
        if mode == "boundary_u":
            fl = ["U"]
        else:
            fl = draw(st.lists(st.sampled_from(ALL), min_size=1, max_size=6, unique=True))
        res = [rnd.choice(pl) for _ in range(np)] + [rnd.choice(fl) for _ in range(total - np)]
        # case pattern: independent lower-case rates for the protein-only letters and for all the others
        # (all upper / a few lower / half / almost all / all lower, in every combination)
        p_po = draw(st.sampled_from([0.0, 0.0, 0.02, 0.5, 0.98, 1.0]))
        p_other = draw(st.sampled_from([0.0, 0.0, 0.02, 0.5, 0.98, 1.0]))
        res = [(c.lower() if rnd.random() < (p_po if c in PONLY else p_other) else c) for c in res]
        # layout: letters shuffled over the sequences, or the protein-only letters concentrated at the front / at the end
        # (so that the first or the last records alone carry the decisive letters)
        layout = draw(st.sampled_from(["shuffled", "shuffled", "po_first", "po_last"]))
        if layout == "shuffled":
            rnd.shuffle(res)
        else:
            po = [c for c in res if c.upper() in PONLY]
            rest = [c for c in res if c.upper() not in PONLY]
            rnd.shuffle(po)
            rnd.shuffle(rest)
            res = po + rest if layout == "po_first" else rest + po
    res = "".join(res)
    many = len(res) >= 1100 and draw(st.integers(0, 2)) == 0
    if many:
        # more records than the readers' 512-entry increments (statistics must survive every growth of the arrays)
        nseq = draw(st.sampled_from([513, 520, 600, 1025, 1030]))
    else:
        nseq = draw(st.integers(2, min(40, max(2, len(res)))))
    if many:
        # equal-sized records keep the concentrated letters of the po_first / po_last layouts in the first / last records
        step = len(res) / float(nseq)
        cuts = sorted(set(max(1, int(round(i * step))) for i in range(1, nseq)))
    else:
        cuts = sorted(rnd.sample(range(1, len(res)), nseq - 1)) if len(res) > nseq else list(range(1, len(res)))
    seqs = [res[a:b] for a, b in zip([0] + cuts, cuts + [len(res)])]
    seqs = [s for s in seqs if s]
    if len(seqs) < 2:
        seqs = [res, res]
    via = draw(st.sampled_from(["arr", "fasta", "fasta_gapped", "msf", "clu"]))
    gapfrac = draw(st.sampled_from([0.1, 0.5, 0.85, 0.95])) if via != "arr" and via != "fasta" else 0.0
    perm_seed = draw(st.integers(0, 2 ** 16))
    names = draw(gen.names_for(len(seqs), long_names=False))
    names2 = draw(gen.names_for(len(seqs), long_names=False))
    # earlier calls in the same process (array or file input of either kind, possibly much larger): the decision is about
    # the input at hand only
    history = []
    if draw(st.integers(0, 3)) == 0:
        for _ in range(draw(st.integers(1, 3))):
            hk = draw(st.sampled_from(["dna", "protein"]))
            hs = gen.expand_random(draw(st.integers(0, 2 ** 32 - 1)), gen.NUC if hk == "dna" else "DEFHIKLMPQRSVWY" + gen.AA,
                                   draw(st.integers(2, 6)), 5, draw(st.sampled_from([20, 200, 3000])))
            history.append({"via": draw(st.sampled_from(["arr", "arr", "fasta"])), "seqs": hs})
    return {"seqs": seqs, "via": via, "gapfrac": gapfrac, "perm_seed": perm_seed, "names": names, "names2": names2,
            "gap_seed": draw(st.integers(0, 2 ** 16)), "history": history,
            # FASTA input: the records in one file, or split over 2..3 files that are read into one object (each part has to
            # carry the kind on its own - kalign refuses to merge files it takes for different kinds)
            "nfiles": draw(st.sampled_from([1, 1, 2, 2, 3])), "split_seed": draw(st.integers(0, 2 ** 16))}


def strategy(tier):
    return cases(tier)


def gapped_rows(seqs, frac, seed):
    """aligned presentation: equal-length rows, about `frac` of all cells are gaps."""
    rnd = random.Random(seed)
    L = max(len(s) for s in seqs)
    width = max(L + 1, int(L / max(1e-9, 1.0 - frac)) + 1)
    rows = []
    for s in seqs:
        pos = sorted(rnd.sample(range(width), len(s)))
        r = ["-"] * width
        for p, c in zip(pos, s):
            r[p] = c
        rows.append("".join(r))
    # drop all-gap columns is not required for input
    return rows


def history_steps(history):
    """probe lines that read (and free) the earlier inputs in slot 1"""
    wd = runner.workdir()
    lines = []
    for h in history or []:
        if h["via"] == "arr":
            lines += ["arr2msa 1 %s" % wd.write(runner.seqset_bytes(h["seqs"]), ".seqs"), "free 1"]
        else:
            text = formats.write_fasta(["h%d" % i for i in range(len(h["seqs"]))], h["seqs"], width=60)
            lines += ["read 1 1 %s" % wd.write(text.encode("latin-1"), ".in"), "free 1"]
    return lines


def observe(seqs, names, via, gapfrac, gap_seed, history=None, nfiles=1, split_seed=0, cuts=None):
    pre = history_steps(history)
    wd = runner.workdir()
    if via == "fasta" and nfiles > 1:
        cuts = list(cuts) if cuts else kal.split_points(len(seqs), nfiles, split_seed)
        bounds = [0] + cuts + [len(seqs)]
        want = gen.expected_kind(seqs)
        if cuts and all(gen.expected_kind(seqs[a:b]) == want for a, b in zip(bounds, bounds[1:])):
            lines = []
            for a, b in zip(bounds, bounds[1:]):
                fp = wd.write(formats.write_fasta(names[a:b], seqs[a:b], width=60).encode("latin-1"), ".in")
                lines.append("read 0 1 %s" % fp)
            pr = runner.run_probe(pre + lines + ["dump 0", "free 0"])
            k = len(pre) + len(lines)
            if pr.ended.bad or pr.ended.rc != 0 or not pr.steps or len(pr.steps) < k + 2:
                raise kal.Failure(pr.ended, "kalign_read_input (several files)")
            if any(x["rc"] != 0 for x in pr.steps[len(pre):k]) or pr.steps[k].get("msa") is None:
                raise kal.Rejected("read of a part failed", {"rcs": [x["rc"] for x in pr.steps[len(pre):k]]})
            m = pr.steps[k]["msa"]
            if [q["seq"] for q in m["seqs"]] != list(seqs):
                raise kal.Rejected("reader returned different residues (C04/C06 territory)", {"n": len(m["seqs"]), "biotype": m["biotype"]})
            return m["biotype"]
    if via == "arr":
        # behind the given lengths the caller's buffers hold text of the other kind (the interface is (pointer, length))
        want_ = gen.expected_kind(seqs)
        tail = ("DEFHIKLMPQRSVWY" * 30) if want_ == "dna" else ("ACGTN" * 300)
        pre = ["tail %s" % tail] + pre
        sp = wd.write(runner.seqset_bytes(seqs), ".seqs")
        pr = runner.run_probe(pre + ["arr2msa 0 %s" % sp, "dump 0", "free 0"])
        if pr.ended.bad or pr.ended.rc != 0 or not pr.steps or len(pr.steps) < len(pre) + 2:
            raise kal.Failure(pr.ended, "kalign_arr_to_msa after earlier calls")
        if pr.steps[len(pre)]["rc"] != 0 or pr.steps[len(pre) + 1].get("msa") is None:
            raise kal.Rejected("kalign_arr_to_msa failed")
        return pr.steps[len(pre) + 1]["msa"]["biotype"]
    if via == "fasta":
        text = formats.write_fasta(names, seqs, width=60)
    else:
        rows = gapped_rows(seqs, gapfrac, gap_seed)
        if via == "fasta_gapped":
            # the readers take every punctuation character for a gap: pad with one of several (none of them is a residue)
            gc = "--..~_*^=+:[]`"[gap_seed % 14]
            text = formats.write_fasta(names, [r.replace("-", gc) for r in rows], width=70)
        elif via == "msf":
            text = formats.write_msf(names, rows, kind="P")
        else:
            text = formats.write_clustal(names, rows)
    fp = wd.write(text.encode("latin-1"), ".in")
    pr = runner.run_probe(pre + ["read 0 1 %s" % fp, "dump 0", "free 0"])
    if pr.ended.bad or pr.ended.rc != 0 or not pr.steps or len(pr.steps) < len(pre) + 2:
        raise kal.Failure(pr.ended, "kalign_read_input")
    if pr.steps[len(pre)]["rc"] != 0 or pr.steps[len(pre) + 1].get("msa") is None:
        raise kal.Rejected("read failed", {"rc": pr.steps[len(pre)]["rc"]})
    m = pr.steps[len(pre) + 1]["msa"]
    got = [q["seq"] for q in m["seqs"]]
    if got != list(seqs):
        raise kal.Rejected("reader returned different residues (C04/C06 territory)", {"n": len(got), "biotype": m["biotype"]})
    return m["biotype"]


def finding_for(case, want):
    seqs = case["seqs"]
    tot = sum(len(s) for s in seqs)
    u = sum(s.upper().count("U") for s in seqs)
    if want == "protein" and 6 * u >= tot:
        return "F11"
    if want == "dna" and case["gapfrac"] >= 0.8 and case["via"] != "arr":
        return "F9"
    return None


def huge_seqs(h):
    rnd = random.Random(h["seed"])
    L = max(1, h["total"] // h["nseq"])
    return ["".join(rnd.choices(h["alphabet"], k=L)) for _ in range(h["nseq"])]


def check_huge(case):
    h = case["huge"]
    seqs = huge_seqs(h)
    want = gen.expected_kind(seqs)
    if want is None:
        return engine.discard("neither premise holds")
    try:
        b = kal.biotype_of(seqs, variant="plain")
    except kal.Failure as f:
        return engine.violation({"what": "process failure", **f.detail()}, kind="crash")
    except kal.Rejected as e:
        return engine.violation({"what": "kind detection failed on %d residues: %s" % (sum(map(len, seqs)), e.what)}, kind="status")
    cl = ["via=arr", "want=" + want, "residues>=120000"]
    if b != (1 if want == "dna" else 0):
        return engine.violation({"what": "%d residues over %r in %d sequences (%s premise) reported as biotype %d" %
                                 (sum(map(len, seqs)), h["alphabet"], h["nseq"], want, b)}, classes=cl)
    return engine.ok(True, cl, {"residues": sum(map(len, seqs)), "nseq": h["nseq"], "alphabet": h["alphabet"], "want": want},
                     key="huge:%d:%s" % (h["total"], h["alphabet"]))


def check(case):
    if case.get("huge"):
        return check_huge(case)
    seqs = case["seqs"]
    want = gen.expected_kind(seqs)
    if want is None:
        return engine.discard("neither premise holds")
    cl = ["via=" + case["via"], "want=" + want]
    tot = sum(len(s) for s in seqs)
    po = sum(1 for s in seqs for c in s if c.upper() in gen.PROT_ONLY)
    if want == "protein" and 3 * po <= tot:
        cl.append("protein_only_in_[1/4,1/3]")
    if any("U" in s.upper() for s in seqs):
        cl.append("contains_U")
    if case["gapfrac"] > 0:
        cl.append("gapped>=%.2f" % case["gapfrac"])
    if len(seqs) > 512:
        cl.append("records>512")
    if case.get("history"):
        cl.append("after_earlier_calls")
    if case["via"] == "fasta" and case.get("nfiles", 1) > 1:
        cl.append("several_files")
    try:
        b1 = observe(seqs, case["names"], case["via"], case["gapfrac"], case["gap_seed"], case.get("history"),
                     case.get("nfiles", 1), case.get("split_seed", 0), case.get("cuts"))
        rnd = random.Random(case["perm_seed"])
        idx = list(range(len(seqs)))
        rnd.shuffle(idx)
        b2 = observe([seqs[i] for i in idx], case["names2"], case["via"], case["gapfrac"], case["gap_seed"] + 1)
    except kal.Failure as f:
        return engine.violation({"what": "process failure", **f.detail()}, kind="crash")
    except kal.Rejected as e:
        bt = (e.info or {}).get("biotype")
        if bt is not None and bt != (1 if want == "dna" else 0):
            # the file's residues satisfy the premise, and kalign took the file for the other kind: whatever went wrong while
            # reading, the property is about the file
            return engine.violation({"what": "input satisfying the %s premise reported as biotype %d (the reader also returned other residues than the file holds)" % (want, bt),
                                     "via": case["via"], "names": [x[:40] for x in case["names"][:2]]}, classes=cl)
        return engine.discard("reader did not return the residues: " + e.what)
    exp = 1 if want == "dna" else 0
    fid = finding_for(case, want)
    if b1 != exp or b2 != exp:
        return engine.violation({"what": "composition satisfying the %s premise reported as biotype %d / %d (0=protein,1=dna,2=undef)" % (want, b1, b2),
                                 "residues": tot, "protein_only": po, "via": case["via"], "gapfrac": case["gapfrac"]},
                                classes=cl, finding=fid)
    # acceptance of --type dna / --type protein must agree with the detected kind (small inputs only, to bound the cost)
    if tot <= 300 and len(seqs) >= 2 and case["via"] in ("arr", "fasta"):
        for t, tkind in ((0, "dna"), (3, "protein")):
            try:
                kal.align_named(case["names"], seqs, {"type": t, "threads": 1})
                accepted = True
            except kal.Rejected:
                accepted = False
            except kal.Failure as f:
                return engine.violation({"what": "process failure with type %d" % t, **f.detail()}, kind="crash")
            if accepted != (tkind == want):
                return engine.violation({"what": "%s input: alignment type '%s' was %s" % (want, tkind, "accepted" if accepted else "rejected"),
                                         "seqs": [s[:40] for s in seqs[:3]]}, classes=cl)
        cl.append("type_acceptance_checked")
    letters = set(c for s in seqs for c in s.upper())
    return engine.ok(len(letters) >= 2, cl, {"via": case["via"], "want": want, "residues": tot, "protein_only": po,
                                             "seqs": [s[:40] for s in seqs[:3]], "gapfrac": case["gapfrac"]})


def extra(tier, seed, stats):
    """Enumerate boundary compositions: exactly 1/4 protein-only letter p, 3/4 filler f, all (p, f) pairs, both cases."""
    out = []
    n = 0
    for p in PONLY:
        for f in ALL:
            for low, rep in ((False, (5, 4)), (True, (5, 4)), (False, (1, 1)), (False, (60, 40))):
                s1 = (p + f * 3) * rep[0]
                s2 = (f * 3 + p) * rep[1]
                seqs = [s1.lower() if low else s1, s2]
                want = gen.expected_kind(seqs)
                if want is None:
                    continue
                try:
                    b = kal.biotype_of(seqs)
                except (kal.Failure, kal.Rejected) as e:
                    out.append({"case": {"seqs": seqs, "via": "arr", "gapfrac": 0.0, "perm_seed": 0, "names": ["a", "b"],
                                         "names2": ["c", "d"], "gap_seed": 0}, "detail": {"what": str(e)}, "kind": "crash"})
                    continue
                n += 1
                stats.evaluations += 1
                stats.nontrivial.add("enum:%s%s%d%d" % (p, f, low, rep[0]))
                stats.classes["enumerated_boundary"] += 1
                exp = 1 if want == "dna" else 0
                if b != exp:
                    case = {"seqs": seqs, "via": "arr", "gapfrac": 0.0, "perm_seed": 0, "names": ["a", "b"],
                            "names2": ["c", "d"], "gap_seed": 0}
                    fid = finding_for(case, want)
                    if fid and engine.known_active(fid):
                        stats.excluded_known[fid] += 1
                        continue
                    out.append({"case": case, "detail": {"what": "boundary composition %s:%s reported as %d" % (p, f, b)},
                                "kind": "mismatch"})
    stats.extra["enumerated_boundary_pairs"] = n
    # names are not residues: short records whose names are long and rich in the letters of the other kind, every reader
    for want, seqs, nm in (("dna", ["ACGTTGCA", "ACGATGCA", "ACTTGCA", "ACGTTGA"], "DEFHIKLMPQRSVWY_PROTEIN_KINASE_LIKE_%d"),
                           ("protein", ["MKVLHHW", "MKILHW", "MKVHHW", "MKVLHW"], "ACGTACGTACGTTTGGCCAANNNNACGT_%d")):
        for via, gf in (("fasta", 0.0), ("fasta_gapped", 0.5), ("msf", 0.5), ("clu", 0.5), ("msf", 0.1), ("clu", 0.9)):
            case = {"seqs": seqs, "via": via, "gapfrac": gf, "perm_seed": 3, "names": [nm % i for i in range(4)], "names2": [(nm % i)[::-1] for i in range(4)],
                    "gap_seed": 1, "history": [], "nfiles": 1, "split_seed": 0}
            r = check(case)
            stats.record(case, r)
            stats.classes["names_of_the_other_kind"] += 1
            if r["status"] == "violation":
                out.append({"case": case, "detail": r["detail"], "kind": r.get("kind")})
    # the same with FASTA header lines far beyond any line buffer (300 .. 70000 characters of the other kind's letters)
    for want, seqs, word in (("dna", ["ACGTTGCA", "ACGATGCA", "ACTTGCA", "ACGTTGA"], "PROTEINKINASELIKEDEFHIKLMPQRSVWY "),
                             ("protein", ["MKVLHHW", "MKILHW", "MKVHHW", "MKVLHW"], "ACGTACGTTTGGCCAANNNNACGT ")):
        for hl in (300, 1100, 4200, 8300, 16500, 70000):
            for which in (0, 3):
                names = ["r%d" % i for i in range(4)]
                names[which] = ("r%d " % which + word * (hl // len(word) + 1))[:hl]
                case = {"seqs": seqs, "via": "fasta", "gapfrac": 0.0, "perm_seed": 3, "names": names, "names2": list(reversed(names)),
                        "gap_seed": 1, "history": [], "nfiles": 1, "split_seed": 0}
                r = check(case)
                stats.record(case, r)
                stats.classes["long_headers_of_the_other_kind"] += 1
                if r["status"] == "violation":
                    out.append({"case": case, "detail": r["detail"], "kind": r.get("kind")})
    # call history, enumerated: a small input of one kind observed after one or three large inputs of the other kind (array
    # and file calls in every combination): the decision is about the input at hand
    rnd_h = random.Random(seed + 5)
    big_p = gen.expand_random(rnd_h.randrange(2 ** 32), "DEFHIKLMPQRSVWY" + gen.AA, 6, 2000, 3000)
    big_d = gen.expand_random(rnd_h.randrange(2 ** 32), gen.NUC, 6, 2000, 3000)
    small = {"dna": ["ACGTTGCA", "ACGATGCA", "ACTTGCA"], "protein": ["DAAA", "AAAD", "CCDC"], "protein2": ["MKVLHHW", "MKILHW", "MKVHHW"]}
    for want_key, prior in (("dna", big_p), ("protein", big_d), ("protein2", big_d)):
        for hv in (["arr"], ["fasta"], ["arr", "fasta", "arr"], ["fasta", "arr", "fasta"]):
            for via in ("arr", "fasta"):
                seqs = small[want_key]
                case = {"seqs": seqs, "via": via, "gapfrac": 0.0, "perm_seed": 1, "names": ["a", "b", "c"], "names2": ["x", "y", "z"], "gap_seed": 0,
                        "history": [{"via": v, "seqs": prior} for v in hv], "nfiles": 1, "split_seed": 0}
                r = check(case)
                stats.record(case, r)
                stats.classes["history_enumerated"] += 1
                if r["status"] == "violation":
                    out.append({"case": case, "detail": r["detail"], "kind": r.get("kind")})
    # letter statistics across files: a small first file and a larger second one of the same boundary composition (1/4
    # protein-only letter x, 3/4 nucleotide letter f), every x, both cases of x and of f: the votes of every letter in
    # either case must survive the merge of the files
    merge_cases = []
    for x in PONLY:
        for xc in (x, x.lower()):
            for f in "ACGT":
                for fc in (f, f.lower()):
                    s1 = [x * 2 + f * 6, f * 6 + x * 2]
                    s2 = [(xc + fc * 3) * 10, (fc * 3 + xc) * 10, (fc + xc + fc * 2) * 10]
                    merge_cases.append({"seqs": s1 + s2, "via": "fasta", "gapfrac": 0.0, "perm_seed": 0, "names": ["a1", "a2", "b1", "b2", "b3"],
                                        "names2": ["c1", "c2", "d1", "d2", "d3"], "gap_seed": 0, "nfiles": 2, "cuts": [2]})
    from concurrent.futures import ThreadPoolExecutor

    def one(c):
        try:
            wd = runner.workdir()
            lines = []
            for a, b in ((0, 2), (2, 5)):
                fp = wd.write(formats.write_fasta(c["names"][a:b], c["seqs"][a:b], width=60).encode("latin-1"), ".in")
                lines.append("read 0 1 %s" % fp)
            pr = runner.run_probe(lines + ["dump 0", "free 0"])
            if pr.ended.bad or not pr.steps or len(pr.steps) < 3:
                return ("crash", pr.ended.brief())
            if pr.steps[0]["rc"] != 0 or pr.steps[1]["rc"] != 0 or pr.steps[2].get("msa") is None:
                return ("rejected", [pr.steps[0]["rc"], pr.steps[1]["rc"]])
            return ("ok", pr.steps[2]["msa"]["biotype"])
        except Exception as e:      # noqa
            return ("crash", {"error": str(e)})

    with ThreadPoolExecutor(max_workers=12) as ex:
        res = list(ex.map(one, merge_cases))
    for c, (st_, val) in zip(merge_cases, res):
        stats.evaluations += 1
        stats.classes["two_files_enumerated"] += 1
        if st_ == "ok" and val == 0:
            stats.nontrivial.add("merge:%s" % c["seqs"][2][:4])
            continue
        what = ("two FASTA files, each of them protein by the 1/4 premise (%r.. and %r..), read into one object: " % (c["seqs"][0], c["seqs"][2][:8])) + \
               ("reported as biotype %r" % val if st_ == "ok" else "%s %r" % (st_, val))
        out.append({"case": c, "detail": {"what": what}, "kind": "mismatch" if st_ != "crash" else "crash"})
    # very large inputs: the decision is a sum over all residues, so totals from 10^5 to a few 10^6 are enumerated
    # (array path; 40..6400 sequences)
    rnd = random.Random(seed + 77)
    totals = [120000, 160000, 200000, 260000, 400000, 600000, 700000, 860000, 1200000] + ([] if tier == "quick" else [1700000, 2300000, 4500000])
    for tot in totals:
        for alpha in ("DEFHIKLMPQRSVWY" * 3 + "ACGTNBZX", "DEFHIKLMPQRSVWY", "ACGT", "ACGTUN", "acgtn"):
            case = {"huge": {"seed": rnd.randrange(2 ** 32), "total": tot, "nseq": rnd.choice([40, 400, 2400, 6400]), "alphabet": alpha}}
            r = check_huge(case)
            stats.record(case, r)
            if r["status"] == "violation":
                out.append({"case": case, "detail": r["detail"], "kind": r.get("kind")})
    return out
