"""C17 The alignment-comparison score is exact."""
import random

from hypothesis import strategies as st

from vlib import alngen, engine, formats, gen, kal, present, runner

ID = "C17"
RULE = ("Uniquely named sequences (2..25 generated sets; one case in six is tall: 40..75 sequences of equal length of which only the last or first 1..6 are shorter, so that only those rows carry gaps) and two alignments of them. Each alignment is either produced "
        "in-process by kalign_run, or a random gap placement (equal-length rows, all-gap columns allowed, >= 1 gap) written by "
        "my writers as aligned FASTA / MSF / Clustal; row orders shuffled independently. Modes: 'independent' (two unrelated "
        "alignments), 'same' (test = reference with rows permuted and all-gap columns inserted, expected score 100) and "
        "'perturbed' (test = reference with a few residues shifted). Oracle: independent python implementation of the "
        "definition - over ordered pairs of sequences and residues, the partner-or-gap in the reference vs the test - with "
        "score == float32(100.0*hits/total) exactly (the double quotient rounded once to the float that is returned); 0 <= score <= 100; equal score after permuting the rows of either argument; a third of the cases repeat the call 3 or 12 times with a drawn OMP_NUM_THREADS (1, 2, 8, 16, default) and all results must be equal. extra(): alignments of 505..530 and 1020..1044 columns read from FASTA and from Clustal / MSF files (100 expected, and the defined score against a one-residue shift); comparisons of 400x12, 120x40 and 30x200 (rows x columns) alignments under ThreadSanitizer + Archer with a 4-thread team (a data-race report with a kalign frame is a violation) and 40 repetitions on the un-sanitised build with 8 threads (one value, the defined one). "
        "Non-trivial = 0 < score < 100; class identical_up_to_order_and_gap_columns.")
ASSUMPTIONS = ["files contain at least one gap character (a gap-free file is by design not recognised as an alignment)",
               "names unique, from [A-Za-z0-9_.|-], <= 30 characters"]
BUDGET = {"quick": dict(examples=800, workers=12, seconds=60), "thorough": dict(examples=1200, workers=16, seconds=480)}


def random_alignment(seqs, seed, extra_cols, gap_rows=None):
    """gap_rows: None = gaps anywhere; ("last", k) / ("first", k): only those rows may carry gaps (needs equal lengths)"""
    rnd = random.Random(seed)
    L = max(len(s) for s in seqs) + rnd.randint(0, extra_cols)
    if gap_rows is not None:
        L = max(len(s) for s in seqs)
    rows = []
    for s in seqs:
        pos = sorted(rnd.sample(range(L), len(s)))
        r = ["-"] * L
        for p, c in zip(pos, s):
            r[p] = c
        rows.append("".join(r))
    if not any("-" in r for r in rows):
        rows = [r + "-" for r in rows]
    return rows


def perturb_balanced(rows, seed):
    """Differences that leave simple per-row summaries unchanged (length, composition, position-weighted letter sums such as
    the GCG checksum): in one row, one residue x moves one column to the right into a gap and another x moves one column
    to the left into a gap; or a residue moves across a gap run by exactly 57 columns. None when no row offers that."""
    rnd = random.Random(seed)
    order = list(range(len(rows)))
    rnd.shuffle(order)
    for ri in order:
        r = list(rows[ri])
        right = [i for i in range(len(r) - 1) if r[i] != "-" and r[i + 1] == "-"]
        left = [i for i in range(1, len(r)) if r[i] != "-" and r[i - 1] == "-"]
        rnd.shuffle(right)
        for i in right:
            cand = [j for j in left if r[j] == r[i] and abs(j - i) > 2]
            if cand:
                j = rnd.choice(cand)
                r[i + 1], r[i] = r[i], "-"
                r[j - 1], r[j] = r[j], "-"
                out = list(rows)
                out[ri] = "".join(r)
                return out
        for i in range(len(r)):
            if r[i] != "-" and i + 57 < len(r) and all(c == "-" for c in r[i + 1:i + 58]):
                r[i + 57], r[i] = r[i], "-"
                out = list(rows)
                out[ri] = "".join(r)
                return out
    return None


def perturb(rows, seed):
    rnd = random.Random(seed)
    if seed % 3 == 0:
        b = perturb_balanced(rows, seed)
        if b is not None:
            return b
    rows = [list(r) for r in rows]
    for _ in range(rnd.randint(1, 6)):
        r = rnd.choice(rows)
        gaps = [i for i, c in enumerate(r) if c == "-"]
        res = [i for i, c in enumerate(r) if c != "-"]
        if not gaps or not res:
            continue
        g = rnd.choice(gaps)
        # move the nearest residue into the gap (keeps residue order)
        left = [i for i in res if i < g]
        right = [i for i in res if i > g]
        if left and (not right or rnd.random() < 0.5):
            i = left[-1]
        elif right:
            i = right[0]
        else:
            continue
        if all(r[k] == "-" for k in range(min(i, g) + 1, max(i, g))):
            r[g], r[i] = r[i], "-"
    return ["".join(r) for r in rows]


def add_gap_columns(rows, seed):
    rnd = random.Random(seed)
    L = len(rows[0])
    ins = sorted(rnd.randint(0, L) for _ in range(rnd.randint(0, 4)))
    out = []
    for r in rows:
        r2 = []
        k = 0
        for i in range(L + 1):
            while k < len(ins) and ins[k] == i:
                r2.append("-")
                k += 1
            if i < L:
                r2.append(r[i])
        out.append("".join(r2))
    return out


def score_ref(names_r, rows_r, names_t, rows_t):
    """independent implementation of the definition"""
    def partners(rows):
        n = len(rows)
        cols = []
        for r in rows:
            idx = []
            k = 0
            for c in r:
                if c.isalpha():
                    idx.append(k)
                    k += 1
                else:
                    idx.append(-1)
            cols.append(idx)
        out = {}
        for i in range(n):
            for j in range(n):
                if i == j:
                    continue
                p = {}
                for c in range(len(rows[i])):
                    a = cols[i][c]
                    if a >= 0:
                        p[a] = cols[j][c]
                out[(i, j)] = p
        return out
    t_index = {nm: k for k, nm in enumerate(names_t)}
    order_t = [t_index[nm] for nm in names_r]
    rows_t2 = [rows_t[k] for k in order_t]
    pr = partners(rows_r)
    pt = partners(rows_t2)
    hits = 0
    total = 0
    for key, p in pr.items():
        q = pt[key]
        for a, b in p.items():
            total += 1
            if q.get(a) == b:
                hits += 1
    return hits, total


@st.composite
def cases(draw, tier):
    tall = draw(st.integers(0, 5)) == 0
    big = not tall and draw(st.integers(0, 11)) == 0
    if big:
        # enough relations for single-precision arithmetic to matter ((nseq-1) x residues beyond 2^24 / 25)
        k0, alpha = draw(gen.alphabets())
        n = draw(st.integers(100, 150))
        L = draw(st.integers(60, 90))
        seqs = gen.expand_family(draw(st.integers(0, 2 ** 32 - 1)), alpha, n, L, 0.2, 0.0, 0.0)
        ss = {"kind": gen.expected_kind(seqs), "seqs": seqs}
    elif tall:
        # tall alignments in which only the last (or first) few rows carry gaps: full-length sequences plus a few with deletions
        k0, alpha = draw(gen.alphabets())
        rnd = random.Random(draw(st.integers(0, 2 ** 32 - 1)))
        n = draw(st.sampled_from([40, 49, 50, 51, 52, 60, 75]))
        L = draw(st.integers(6, 30))
        anc = [rnd.choice(alpha) for _ in range(L)]
        kshort = draw(st.integers(1, 6))
        seqs = []
        for i in range(n):
            s = [c if rnd.random() > 0.2 else rnd.choice(alpha) for c in anc]
            if i >= n - kshort:
                del s[rnd.randrange(len(s) - 1)]
            seqs.append("".join(s))
        if draw(st.booleans()):
            seqs.reverse()
        ss = {"kind": gen.expected_kind(seqs), "seqs": seqs}
    else:
        ss = draw(gen.seqsets(max_n=12 if tier == "quick" else 25, max_len=80 if tier == "quick" else 200, dup=True))
    seqs = ss["seqs"]
    n = len(seqs)
    names = draw(gen.names_for(n, max_len=30, long_names=False))
    mode = draw(st.sampled_from(["independent", "same", "perturbed"]))
    def side():
        return {"how": draw(st.sampled_from(["run", "fasta", "msf", "clu"])), "seed": draw(st.integers(0, 2 ** 32 - 1)),
                "extra": draw(st.sampled_from([0, 1, 5, 30])), "perm_seed": draw(st.integers(0, 2 ** 16))}
    return {"names": names, "seqs": seqs, "kind": ss["kind"], "mode": mode, "ref": side(), "test": side(),
            "type": draw(gen.types_for(ss["kind"])), "perm2": draw(st.integers(0, 2 ** 16)),
            # the score is a pure function of the two alignments: the same call repeated, with whatever team size the OpenMP
            # runtime has, must return the same number every time
            "reps": draw(st.sampled_from([1, 1, 1, 3, 12])), "omp": draw(st.sampled_from([None, None, "1", "2", "8", "16"]))}


def strategy(tier):
    return cases(tier)


def _shuffled(names, rows, seed):
    idx = list(range(len(names)))
    random.Random(seed).shuffle(idx)
    return [names[i] for i in idx], [rows[i] for i in idx]


def check(case):
    if case.get("leg") == "race":
        return check_race(case)
    if case.get("leg") == "wide":
        return check_wide(case)
    names, seqs = case["names"], case["seqs"]
    n = len(seqs)
    if n < 2 or len(set(names)) != n:
        return engine.discard("malformed")
    kind = gen.expected_kind(seqs)
    kl = "P" if kind == "protein" else "N"
    wd = runner.workdir()
    cl = ["mode=" + case["mode"], "ref=" + case["ref"]["how"], "test=" + case["test"]["how"]]
    if n > 50:
        cl.append("rows>50")
    if n >= 100:
        cl.append("relations>=600k")

    def load(slot, side, rows):
        """returns script lines that put an alignment in `slot`; rows None -> run kalign"""
        if rows is None:
            fp = wd.write(kal.fasta_bytes(*_shuffled(names, seqs, side["perm_seed"])), ".fa")
            return ["read %d 1 %s" % (slot, fp), "run %d 1 %d -1 -1 -1" % (slot, case["type"]), "dump %d" % slot]
        nm, rw = _shuffled(names, rows, side["perm_seed"])
        how = side["how"] if side["how"] != "run" else "fasta"
        if how == "fasta":
            text = formats.write_fasta(nm, rw, width=60)
        elif how == "msf":
            text = formats.write_msf(nm, rw, kind=kl)
        else:
            text = formats.write_clustal(nm, rw)
        fp = wd.write(text.encode("latin-1"), "." + how)
        return ["read %d 1 %s" % (slot, fp), "finalise %d" % slot, "dump %d" % slot]

    ref_rows = None if case["ref"]["how"] == "run" else random_alignment(seqs, case["ref"]["seed"], case["ref"]["extra"])
    if case["mode"] == "independent":
        test_rows = None if case["test"]["how"] == "run" else random_alignment(seqs, case["test"]["seed"], case["test"]["extra"])
        lines = load(0, case["ref"], ref_rows) + load(1, case["test"], test_rows)
    else:
        # test derived from the reference: need the reference rows first
        if ref_rows is None:
            try:
                r = kal.align_named(names, seqs, {"type": case["type"], "threads": 1})
            except (kal.Failure, kal.Rejected):
                return engine.discard("reference run failed (other properties)")
            ref_rows = r["rows"]
            if not any("-" in x for x in ref_rows):
                ref_rows = [x + "-" for x in ref_rows]
        base = ref_rows if case["mode"] == "same" else perturb(ref_rows, case["test"]["seed"])
        test_rows = add_gap_columns(base, case["test"]["seed"] + 1)
        if not any("-" in x for x in test_rows):
            test_rows = [x + "-" for x in test_rows]
        side_r = dict(case["ref"], how=case["ref"]["how"] if case["ref"]["how"] != "run" else "fasta")
        side_t = dict(case["test"], how=case["test"]["how"] if case["test"]["how"] != "run" else "clu")
        lines = load(0, side_r, ref_rows) + load(1, side_t, test_rows)
    reps = max(1, int(case.get("reps", 1)))
    lines += ["compare 0 1"] * reps + ["free 0", "free 1"]
    pr = runner.run_probe(lines, env={"OMP_NUM_THREADS": case["omp"]} if case.get("omp") else None)
    if pr.ended.bad or pr.ended.rc != 0 or pr.steps is None or len(pr.steps) != len(lines):
        if pr.ended.kind == "hang":
            return engine.discard("cpu-limit")
        return engine.violation({"what": "process failure", **pr.ended.brief()}, kind="crash")
    s = pr.steps
    if s[0]["rc"] != 0 or s[3]["rc"] != 0 or s[1]["rc"] != 0 or s[4]["rc"] != 0:
        return engine.discard("an alignment could not be loaded (rc %s)" % [s[0]["rc"], s[1]["rc"], s[3]["rc"], s[4]["rc"]])
    rn, rr = kal.msa_rows(s[2]["msa"])
    tn, tr = kal.msa_rows(s[5]["msa"])
    if sorted(rn) != sorted(names) or sorted(tn) != sorted(names):
        return engine.discard("loaded names differ (C04/C06 territory)")
    if [x.replace("-", "") for x in rr] != [seqs[names.index(nm)] for nm in rn] or \
            [x.replace("-", "") for x in tr] != [seqs[names.index(nm)] for nm in tn]:
        return engine.discard("loaded residues differ (C04/C06 territory)")
    cmp_ = s[6]
    if reps > 1:
        cl.append("repeated_call")
        got_all = [(x.get("rc"), x.get("score")) for x in s[6:6 + reps]]
        if len(set(got_all)) != 1:
            return engine.violation({"what": "the same kalign_msa_compare call repeated %d times returned different results" % reps,
                                     "results": got_all[:12], "OMP_NUM_THREADS": case.get("omp")}, classes=cl)
    if cmp_["rc"] != 0:
        return engine.violation({"what": "kalign_msa_compare failed on two alignments of the same uniquely named sequences", "rc": cmp_["rc"]},
                                classes=cl, kind="status")
    hits, total = score_ref(rn, rr, tn, tr)
    want = 100.0 * hits / total if total else None
    got = cmp_["score"]
    if want is None:
        return engine.discard("no relations")
    import numpy as np
    # the score is a float: it must be the double-precision quotient rounded once to single precision
    if not (got == got) or np.float32(got) != np.float32(want):
        return engine.violation({"what": "score %r but the definition gives %.6f (%d of %d relations)" % (got, want, hits, total),
                                 "ref": list(zip(rn, rr))[:4], "test": list(zip(tn, tr))[:4]}, classes=cl)
    if got < 0.0 or got > 100.0:
        return engine.violation({"what": "score %r outside 0..100" % got}, classes=cl)
    if case["mode"] == "same":
        cl.append("identical_up_to_order_and_gap_columns")
        if got != 100.0:
            return engine.violation({"what": "same alignment up to row order / all-gap columns scores %r" % got}, classes=cl)
    return engine.ok(0 < got < 100, cl, {"names": names[:3], "ref": rr[:2], "test": tr[:2], "score": got, "hits": hits, "total": total})


# ------------------------------------------------------------------ ThreadSanitizer leg

def check_race(case):
    """kalign_msa_compare under ThreadSanitizer + Archer (clang/libomp build) with a 4-thread team, on many cheap rows
    (where unsynchronised per-row bookkeeping would collide): a data-race report with a kalign frame is a violation; and the
    same call 40 times on the un-sanitised build with 8 threads must return one value, the defined one."""
    import os
    import numpy as np
    names, ref, n2, t2 = case["names"], case["ref_rows"], case["test_names"], case["test_rows"]
    archer = "/usr/lib/llvm-14/lib/libarcher.so"
    env = {"OMP_NUM_THREADS": "4", "OMP_WAIT_POLICY": "passive"}
    if os.path.exists(archer):
        env["OMP_TOOL_LIBRARIES"] = archer
    wd = runner.workdir()
    f0 = wd.write(formats.write_fasta(names, ref, width=60).encode("latin-1"), ".afa")
    f1 = wd.write(formats.write_fasta(n2, t2, width=60).encode("latin-1"), ".afa")
    load = ["read 0 1 %s" % f0, "finalise 0", "read 1 1 %s" % f1, "finalise 1"]
    cl = ["leg=race", "rows=%d" % len(names)]
    pr = runner.run_probe(load + ["compare 0 1"] * 4 + ["free 0", "free 1"], variant="tsan", env=env, cpu=600)
    err = pr.ended.err or ""
    if "WARNING: ThreadSanitizer: data race" in err and ("/repo/" in err or "kalign" in err or "msa_cmp" in err):
        return engine.violation({"what": "ThreadSanitizer data race in kalign_msa_compare", "stderr": err[:2500]}, classes=cl, kind="tsan")
    tsan_ok = not (pr.ended.kind.startswith("signal") or pr.ended.kind == "hang")
    pr = runner.run_probe(load + ["compare 0 1"] * 40 + ["free 0", "free 1"], variant="plain", env={"OMP_NUM_THREADS": "8"}, cpu=600)
    if pr.ended.bad or pr.steps is None or len(pr.steps) != 46:
        return engine.violation({"what": "process failure in the repeated comparison", **pr.ended.brief()}, classes=cl, kind="crash")
    got = sorted(set((x.get("rc"), x.get("score")) for x in pr.steps[4:44]))
    hits, total = score_ref(names, ref, n2, t2)
    want = np.float32(100.0 * hits / total)
    if len(got) != 1 or got[0][0] != 0 or np.float32(got[0][1]) != want:
        return engine.violation({"what": "40 repetitions of one comparison (%d rows x %d columns, 8 threads) returned %r, the definition gives %r" %
                                 (len(names), len(ref[0]), got[:6], float(want))}, classes=cl)
    return engine.ok(True, cl + (["tsan_clean"] if tsan_ok else ["tsan_inconclusive"]), {"rows": len(names), "cols": len(ref[0]), "score": float(want)},
                     key="race:%dx%d" % (len(names), len(ref[0])))


def check_wide(case):
    """one alignment of 505..1044 columns written as FASTA and as Clustal / MSF (rows around the 512- and 1024-residue
    increments of the readers' row buffers, a gap run right behind a row's last residue): the comparison of the two files
    must give exactly 100, and a one-residue shift must give exactly the defined score"""
    import numpy as np
    w, fmt = case["width"], case["fmt"]
    full = "".join("ACDEFGHIKLMNPQRSTVWY"[(c * 7 + c // 3) % 20] for c in range(w))
    rows = [full, full[:w - 5] + "-----", "---" + full[3:], full[:w - 9] + "----" + full[w - 5:]]
    names = ["w%d" % i for i in range(4)]
    kl = "P"
    wd = runner.workdir()
    f0 = wd.write(formats.write_fasta(names, rows, width=60).encode("latin-1"), ".afa")
    text = formats.write_msf(names, rows, kind=kl) if fmt == "msf" else formats.write_clustal(names, rows)
    f1 = wd.write(text.encode("latin-1"), "." + fmt)
    shifted = list(rows)
    shifted[1] = full[:w - 6] + "-" + full[w - 6] + "----"
    f2 = wd.write((formats.write_msf(names, shifted, kind=kl) if fmt == "msf" else formats.write_clustal(names, shifted)).encode("latin-1"), "." + fmt)
    lines = ["read 0 1 %s" % f0, "finalise 0", "read 1 1 %s" % f1, "finalise 1", "read 2 1 %s" % f2, "finalise 2", "compare 0 1", "compare 1 0", "compare 0 2",
             "free 0", "free 1", "free 2"]
    pr = runner.run_probe(lines)
    cl = ["leg=wide", "fmt=" + fmt]
    if pr.ended.bad or pr.steps is None or len(pr.steps) != len(lines):
        return engine.violation({"what": "process failure", **pr.ended.brief()}, classes=cl, kind="crash")
    st_ = pr.steps
    if any(st_[i]["rc"] != 0 for i in range(6)):
        return engine.discard("an alignment could not be loaded (C04/C06 territory): %s" % [st_[i]["rc"] for i in range(6)], classes=cl)
    hits, total = score_ref(names, rows, names, shifted)
    want = np.float32(100.0 * hits / total)
    got = [(st_[i].get("rc"), st_[i].get("score")) for i in (6, 7, 8)]
    if got[0] != (0, 100.0) or got[1] != (0, 100.0):
        return engine.violation({"what": "the same %d-column alignment read from a FASTA and from a %s file compares as %r / %r, not 100" % (w, fmt, got[0], got[1])}, classes=cl)
    if got[2][0] != 0 or np.float32(got[2][1]) != want:
        return engine.violation({"what": "%d-column alignment against a copy with one residue shifted (%s file): score %r, the definition gives %r" % (w, fmt, got[2], float(want))}, classes=cl)
    return engine.ok(True, cl, {"width": w, "fmt": fmt}, key="wide:%d:%s" % (w, fmt))


def extra(tier, seed, stats):
    out = []
    for w in list(range(505, 531)) + list(range(1020, 1045)):
        for fmt in ("clu", "msf"):
            case = {"leg": "wide", "width": w, "fmt": fmt}
            r = check_wide(case)
            stats.record(case, r)
            if r["status"] == "violation":
                out.append({"case": case, "detail": r["detail"], "kind": r.get("kind")})
    rnd = random.Random(seed * 13 + 1)
    shapes = [(400, 12), (120, 40), (30, 200)] if tier == "quick" else [(400, 12), (800, 8), (120, 40), (60, 120), (30, 200), (250, 30)]
    for n, L in shapes:
        alpha = gen.AA if n % 20 else gen.NUC
        anc = [rnd.choice(alpha) for _ in range(L)]
        seqs = []
        for i in range(n):
            t = [c if rnd.random() > 0.2 else rnd.choice(alpha) for c in anc]
            if i % 3 == 0 and len(t) > 3:
                del t[rnd.randrange(len(t))]
            seqs.append("".join(t))
        names = ["r%d" % i for i in range(n)]
        ref = random_alignment(seqs, rnd.randrange(2 ** 32), 3)
        test = perturb(ref, rnd.randrange(2 ** 32))
        if not any("-" in x for x in ref):
            ref = [x + "-" for x in ref]
        if not any("-" in x for x in test):
            test = [x + "-" for x in test]
        n2, t2 = _shuffled(names, test, 7)
        case = {"leg": "race", "names": names, "ref_rows": ref, "test_names": n2, "test_rows": t2}
        r = check_race(case)
        stats.record(case, r)
        if r["status"] == "violation":
            out.append({"case": case, "detail": r["detail"], "kind": r.get("kind")})
    return out
