"""Deterministic inputs for the enumerated size sweeps (exact thresholds: 100 sequences, 500 columns, 64-symbol blocks,
512-entry buffers ...).  Pure functions of (n, length, salt)."""
import random

from . import gen


def family(n, length, kind="dna", salt=0, sub=0.15, indel=0.04):
    alpha = gen.NUC if kind == "dna" else gen.AA
    return gen.expand_family(1000003 * n + 7919 * length + salt, alpha, n, length, sub, indel, 0.15)


def count_sweep(quick=True):
    """numbers of sequences: every count up to 140 (UPGMA / k-means switch at 100, anchors), then windows"""
    xs = list(range(2, 141)) + list(range(250, 262)) + ([] if quick else list(range(141, 250)) + list(range(500, 520)))
    return xs


def length_sweep(quick=True):
    """sequence lengths: every length up to 140 (64/128 block edges), windows around 256, 500 (serial/parallel switch),
    512 (buffer), 1024 (distance cap)"""
    xs = list(range(1, 141)) + list(range(250, 262)) + list(range(490, 520)) + list(range(1018, 1030))
    if not quick:
        xs += list(range(141, 250)) + list(range(262, 490)) + list(range(520, 700)) + list(range(2040, 2056))
    return sorted(set(xs))
