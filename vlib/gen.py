"""Hypothesis strategies shared by the property modules.

Structure (how many sequences, lengths, divergence, which edits, names, options)
is drawn from Hypothesis.  Short sequences are drawn letter by letter so they
shrink fully; long ones are expanded from drawn parameters and a drawn integer
by a pure function (`expand_family`), because Hypothesis caps the entropy of one
example at 8 KiB.  A case always carries its concrete sequences, so a replay
file does not depend on this module.
"""
import random

from hypothesis import strategies as st

NUC = "ACGT"
NUC_U = "ACGU"
NUC_N = "ACGTUN"
IUPAC = "ACGTURYSWKMBDHVN"
AA = "ACDEFGHIKLMNPQRSTVWY"
AA_X = AA + "BZX"
PROT_ONLY = set("DEFHIKLMPQRSVWY")
NUC_SET = set("ACGTUN")
NAME_CHARS = "ABCDEFGHIJKLMNOPQRSTUVWXYZabcdefghijklmnopqrstuvwxyz0123456789_.|-"

# words that mean something to a format sniffer or header parser; as residue text (letters only: all of them are legal
# protein residues) and inside names they are ordinary data
FORMAT_WORDS = ["CLUSTAL", "CLUSTALW", "MSF", "PILEUP", "PileUp", "MULTIPLE", "ALIGNMENT", "MUSCLE", "KALIGN", "Kalign", "NAME",
                "Name", "LEN", "Len", "CHECK", "Check", "WEIGHT", "Weight", "TYPE", "Type", "FASTA", "STOCKHOLM", "NEXUS", "PHYLIP"]

DNA_TYPES = [5, 0, 1, 2]      # undefined, dna, internal, rna
PROT_TYPES = [5, 3, 4]        # undefined, protein, divergent
TYPE_NAME = {0: "dna", 1: "internal", 2: "rna", 3: "protein", 4: "divergent", 5: None}


def expected_kind(seqs):
    """'dna' / 'protein' when one of the two premises of C13 holds, else None."""
    tot = 0
    nuc = 0
    ponly = 0
    for s in seqs:
        for c in s:
            if not c.isalpha():
                continue
            tot += 1
            u = c.upper()
            if u in NUC_SET:
                nuc += 1
            if u in PROT_ONLY:
                ponly += 1
    if tot == 0:
        return None
    if nuc == tot:
        return "dna"
    if 4 * ponly >= tot:
        return "protein"
    return None


# ------------------------------------------------------------------ pure expansion

def mutate(rnd, s, alphabet, sub, ins, dele, maxindel=6):
    out = []
    i = 0
    n = len(s)
    while i < n:
        r = rnd.random()
        if r < dele:
            i += rnd.randint(1, maxindel)
            continue
        if r < dele + ins:
            for _ in range(rnd.randint(1, maxindel)):
                out.append(rnd.choice(alphabet))
        c = s[i]
        if rnd.random() < sub:
            c = rnd.choice(alphabet)
        out.append(c)
        i += 1
    return "".join(out)


def expand_family(seed, alphabet, n, length, sub, indel, trunc, tree=True):
    """n descendants of one random ancestor. Pure function of its arguments."""
    rnd = random.Random(seed)
    anc = "".join(rnd.choice(alphabet) for _ in range(max(1, length)))
    seqs = []
    pool = [anc]
    for _ in range(n):
        parent = rnd.choice(pool) if tree else anc
        s = mutate(rnd, parent, alphabet, sub, indel / 2.0, indel / 2.0)
        if trunc and rnd.random() < trunc:
            a = rnd.randint(0, max(0, len(s) // 3))
            b = rnd.randint(0, max(0, len(s) // 3))
            s = s[a:len(s) - b if b else len(s)]
        if not s:
            s = rnd.choice(alphabet)
        seqs.append(s)
        if tree and rnd.random() < 0.5:
            pool.append(s)
    return seqs


def expand_random(seed, alphabet, n, minlen, maxlen):
    rnd = random.Random(seed)
    return ["".join(rnd.choice(alphabet) for _ in range(rnd.randint(minlen, maxlen))) for _ in range(n)]


# ------------------------------------------------------------------ strategies

@st.composite
def alphabets(draw, kind=None):
    """-> (kind, alphabet string). kind in 'dna','protein'."""
    if kind is None:
        kind = draw(st.sampled_from(["dna", "protein"]))
    if kind == "dna":
        return "dna", draw(st.sampled_from([NUC, NUC, NUC_U, NUC_N, "ACGTU"]))
    # mostly the 20 amino acids; sometimes with the ambiguity codes, selenocysteine (U) and the letters kalign has no
    # class of its own for (O, J: treated as unknown residues)
    return "protein", draw(st.sampled_from([AA, AA, AA, AA_X, AA_X, AA + "U", AA_X + "UOJ"]))


@st.composite
def small_family(draw, alphabet, min_n=2, max_n=8, max_len=40):
    """Fully drawn (and fully shrinkable) family of short sequences."""
    anc = draw(st.text(alphabet=alphabet, min_size=1, max_size=max_len))
    n = draw(st.integers(min_n, max_n))
    seqs = []
    for _ in range(n):
        s = list(anc)
        nedits = draw(st.integers(0, 4))
        for _e in range(nedits):
            op = draw(st.sampled_from("sid"))
            pos = draw(st.integers(0, max(0, len(s))))
            if op == "s" and s:
                s[min(pos, len(s) - 1)] = draw(st.sampled_from(alphabet))
            elif op == "i":
                ins = draw(st.text(alphabet=alphabet, min_size=1, max_size=5))
                s[pos:pos] = list(ins)
            elif op == "d" and len(s) > 1:
                k = draw(st.integers(1, 5))
                del s[min(pos, len(s) - 1):min(pos, len(s) - 1) + k]
        if not s:
            s = [draw(st.sampled_from(alphabet))]
        seqs.append("".join(s))
    return seqs


@st.composite
def big_family(draw, alphabet, min_n=2, max_n=60, max_len=400):
    n = draw(st.integers(min_n, max_n))
    length = draw(st.integers(1, max_len))
    sub = draw(st.sampled_from([0.0, 0.02, 0.1, 0.3, 0.6]))
    indel = draw(st.sampled_from([0.0, 0.01, 0.03, 0.08]))
    trunc = draw(st.sampled_from([0.0, 0.2, 0.6]))
    seed = draw(st.integers(0, 2 ** 32 - 1))
    return expand_family(seed, alphabet, n, length, sub, indel, trunc)


@st.composite
def unrelated(draw, alphabet, min_n=2, max_n=30, max_len=200):
    n = draw(st.integers(min_n, max_n))
    lo = draw(st.integers(1, max_len))
    hi = draw(st.integers(lo, max_len))
    seed = draw(st.integers(0, 2 ** 32 - 1))
    return expand_random(seed, alphabet, n, lo, hi)


@st.composite
def degenerate(draw, alphabet, max_len=400):
    """homopolymers, length-1 sequences, extreme length ratios."""
    n = draw(st.integers(2, 8))
    seqs = []
    for _ in range(n):
        k = draw(st.sampled_from(["homo", "one", "long", "short"]))
        if k == "homo":
            seqs.append(draw(st.sampled_from(alphabet)) * draw(st.integers(1, max_len)))
        elif k == "one":
            seqs.append(draw(st.sampled_from(alphabet)))
        elif k == "long":
            seed = draw(st.integers(0, 2 ** 32 - 1))
            seqs.append(expand_random(seed, alphabet, 1, max_len // 2, max_len)[0])
        else:
            seqs.append(draw(st.text(alphabet=alphabet, min_size=1, max_size=6)))
    return seqs


@st.composite
def seqsets(draw, kind=None, min_n=2, max_n=60, max_len=400, dup=True, case=True, allow_big=True, words=True):
    """-> dict(kind, seqs). seqs non-empty strings; kind is what C13 guarantees or None."""
    k, alpha = draw(alphabets(kind))
    choices = ["small", "small", "big", "big", "unrel", "unrel", "degen", "degen", "dupheavy"] if allow_big else ["small", "degen"]
    shape = draw(st.sampled_from(choices))
    if shape == "small":
        seqs = draw(small_family(alpha, min_n=min_n, max_n=min(max_n, 10), max_len=min(max_len, 40)))
    elif shape == "big":
        seqs = draw(big_family(alpha, min_n=min_n, max_n=max_n, max_len=max_len))
    elif shape == "unrel":
        seqs = draw(unrelated(alpha, min_n=min_n, max_n=min(max_n, 30), max_len=min(max_len, 200)))
    elif shape == "dupheavy":
        # mostly copies of one sequence plus a few variants that force gap columns
        L = draw(st.integers(1, min(max_len, 80)))
        base = expand_random(draw(st.integers(0, 2 ** 32 - 1)), alpha, 1, L, L)[0]
        ncopy = draw(st.integers(max(1, min_n - 1), max(1, max_n - 1)))
        nvar = draw(st.integers(0 if ncopy >= min_n else 1, min(4, max(1, max_n - ncopy))))
        rnd = random.Random(draw(st.integers(0, 2 ** 32 - 1)))
        var = [mutate(rnd, base, alpha, 0.05, 0.08, 0.04) or base for _ in range(nvar)]
        seqs = [base] * ncopy
        for v in var:
            seqs.insert(draw(st.integers(0, len(seqs))), v)
        seqs = seqs[:max_n]
    else:
        seqs = draw(degenerate(alpha, max_len=max_len))
    if words and k == "protein" and draw(st.integers(0, 7)) == 0:
        # residue text that spells a format keyword (upper case as written in files, or as drawn)
        for _ in range(draw(st.integers(1, 2))):
            i = draw(st.integers(0, len(seqs) - 1))
            w = draw(st.sampled_from(FORMAT_WORDS)).upper()
            pos = draw(st.integers(0, len(seqs[i])))
            seqs[i] = seqs[i][:pos] + w + seqs[i][pos:]
        shape += "+word"
    if dup and len(seqs) < max_n and draw(st.integers(0, 3)) == 0:
        i = draw(st.integers(0, len(seqs) - 1))
        j = draw(st.integers(0, len(seqs)))
        seqs.insert(j, seqs[i])
    if case:
        mode = draw(st.sampled_from(["upper", "upper", "lower", "mixed"]))
        if mode == "lower":
            seqs = [s.lower() for s in seqs]
        elif mode == "mixed":
            seed = draw(st.integers(0, 2 ** 16))
            rnd = random.Random(seed)
            seqs = ["".join(c.lower() if rnd.random() < 0.4 else c for c in s) for s in seqs]
    return {"kind": expected_kind(seqs), "seqs": seqs, "shape": shape}


@st.composite
def names_for(draw, n, max_len=40, charset=NAME_CHARS, long_names=True):
    """n pairwise distinct names (distinct within the first 255 characters)."""
    mode = draw(st.sampled_from(["seq", "seq", "seq", "rand", "rand", "long", "long", "word"] if long_names else ["seq", "seq", "seq", "rand", "rand", "rand", "word"]))
    if mode == "word":
        # names that contain a word a format sniffer looks for, in the spelling files use
        sep = draw(st.sampled_from(["_", ".", "|", "-", ""]))
        k = draw(st.integers(0, n - 1))
        out = []
        for i in range(n):
            w = draw(st.sampled_from(FORMAT_WORDS)) if (i == k or draw(st.integers(0, 3)) == 0) else "s"
            out.append("%s%s%d" % (w, sep, i + 1) if draw(st.booleans()) else "%d%s%s" % (i + 1, sep if sep != "-" else "_", w))
        return out
    if mode == "seq":
        pre = draw(st.text(alphabet=charset, min_size=0, max_size=6))
        order = draw(st.booleans())
        idx = list(range(1, n + 1))
        if order:
            idx.reverse()
        return ["%s%d" % (pre, i) for i in idx]
    names = []
    seen = set()
    for i in range(n):
        hi = max_len if mode == "rand" else 200
        nm = draw(st.text(alphabet=charset, min_size=1, max_size=min(hi, 24)))
        if mode == "long":
            # exact lengths, concentrated on the limits of the name columns (st.text alone almost never gets long)
            L = draw(st.one_of(st.integers(1, 200), st.sampled_from([59, 60, 61, 62, 127, 128, 189, 190, 191, 192, 195, 199, 200])))
            nm = (nm + draw(st.sampled_from(charset)) * L)[:L]
        elif hi > 24 and draw(st.integers(0, 3)) == 0:
            nm = (nm * hi)[:draw(st.integers(1, hi))]
        if nm[:255] in seen:
            nm = (nm + "_%d" % i)
            if nm[:255] in seen:
                nm = "%d_%s" % (i, nm)
        seen.add(nm[:255])
        names.append(nm)
    return names


@st.composite
def penalties(draw):
    """(gpo, gpe, tgpe): -1 = not given."""
    if draw(st.integers(0, 2)) != 0:
        return (-1.0, -1.0, -1.0)
    vals = st.sampled_from([0.0, 0.5, 1.0, 2.0, 5.5, 10.0, 55.0, 217.0, 500.0])
    sub = draw(st.integers(1, 7))
    return (draw(vals) if sub & 1 else -1.0, draw(vals) if sub & 2 else -1.0, draw(vals) if sub & 4 else -1.0)


def types_for(kind):
    if kind == "dna":
        return st.sampled_from(DNA_TYPES)
    if kind == "protein":
        return st.sampled_from(PROT_TYPES)
    return st.just(5)


threads = st.sampled_from([1, 1, 2, 3, 4, 8, 16])


def word_family(word, seed, n=5, length=40):
    """a protein family in which one member's residue text spells `word` (upper case), once early and once late"""
    rnd = random.Random(seed)
    fam = expand_family(rnd.randrange(2 ** 32), AA, n, length, 0.15, 0.05, 0.0)
    w = "".join(c for c in word.upper() if c.isalpha())
    fam[0] = fam[0][:5] + w + fam[0][5:]
    fam[n - 2] = fam[n - 2] + w
    return fam


# how one and the same set of records is laid out in a FASTA file (no property depends on it: C04)
layouts = st.fixed_dictionaries({"width": st.sampled_from([0, 0, 60, 80, 7, 1]), "eol": st.sampled_from(["\n", "\n", "\n", "\r\n"]),
                                 "final_eol": st.sampled_from([True, True, False]), "lead_blank": st.sampled_from([0, 0, 0, 1, 6])})
