"""Thin wrappers: run one alignment through one entry point of the real code."""
from . import formats, runner
from .runner import fnum


class Failure(Exception):
    """The process did not end the way a working kalign ends (crash, sanitizer, hang)."""

    def __init__(self, ended, where):
        Exception.__init__(self, "%s: %s" % (where, ended.kind))
        self.ended = ended
        self.where = where

    def detail(self):
        d = self.ended.brief()
        d["where"] = self.where
        return d


def sprinkle_gaps(seqs, mode, start, seed):
    """gap characters written into the records of an input file (they are not residues): in every record ('all'), only in
    the records from index `start` on ('late'), or only behind the last residue ('tail')"""
    import random
    rnd = random.Random(seed)
    out = []
    for i, s in enumerate(seqs):
        if not s or (mode == "late" and i < start):
            out.append(s)
            continue
        if mode == "tail":
            out.append(s + rnd.choice("-.*") * rnd.choice([0, 1, 2, 5]))
            continue
        r = []
        for c in s:
            if rnd.random() < 0.1:
                r.append(rnd.choice("-.") * rnd.randint(1, 3))
            r.append(c)
        out.append("".join(r))
    return out


def fasta_bytes(names, seqs, width=0, layout=None):
    """layout: dict(width, eol, final_eol, lead_blank, ingaps, ingap_from, ingap_seed) - how the same records are laid out in the file"""
    if layout and layout.get("ingaps"):
        seqs = sprinkle_gaps(seqs, layout["ingaps"], min(layout.get("ingap_from", 0), max(0, len(seqs) - 1)), layout.get("ingap_seed", 0))
    if layout:
        eol = layout.get("eol", "\n")
        text = formats.write_fasta(names, seqs, width=layout.get("width", width), eol=eol, lead_blank=layout.get("lead_blank", 0))
        if not layout.get("final_eol", True) and text.endswith(eol) and seqs and seqs[-1]:
            text = text[:-len(eol)]
        return text.encode("latin-1")
    return formats.write_fasta(names, seqs, width=width).encode("latin-1")


def cfg_args(cfg):
    """cfg = dict(type, gpo, gpe, tgpe, threads) -> probe tokens"""
    return "%d %d %s %s %s" % (cfg.get("threads", 1), cfg.get("type", 5), fnum(cfg.get("gpo", -1)),
                               fnum(cfg.get("gpe", -1)), fnum(cfg.get("tgpe", -1)))


def run_arr(seqs, cfg, variant="asan", env=None):
    """kalign(): -> dict(rc, rows, alnlen)."""
    wd = runner.workdir()
    sp = wd.write(runner.seqset_bytes(seqs), ".seqs")
    pr = runner.run_probe(["arr %s %s" % (sp, cfg_args(cfg))], variant=variant, env=env)
    if pr.ended.bad or pr.ended.rc != 0 or not pr.steps:
        raise Failure(pr.ended, "kalign()")
    return pr.steps[0]


def run_files(files, cfg, variant="asan", env=None, write=None, codes=False, pre=None, hook=None, delays=None):
    """read(files...) -> run -> dump [-> write fmt].  files: list of paths.
    Returns dict(read_rcs, run_rc, msa, hook, written)"""
    wd = runner.workdir()
    lines = []
    if pre:
        lines += pre
    for d in (delays or []):
        lines.append("delay " + " ".join(str(int(x)) for x in d))
    if hook:
        lines.append("hook %d %d %d" % tuple(hook))
    nread = len(files)
    for f in files:
        lines.append("read 0 1 %s" % f)
    base = len(lines) - nread
    lines.append("run 0 %s" % cfg_args(cfg))
    lines.append("dump 0 %d" % (1 if codes else 0))
    outs = []
    for fmt in (write or []):
        op = wd.path("." + fmt)
        outs.append((fmt, op))
        lines.append("write 0 %s %s" % (fmt, op))
    lines.append("free 0")
    pr = runner.run_probe(lines, variant=variant, env=env)
    if pr.ended.bad or pr.ended.rc != 0 or pr.steps is None or len(pr.steps) != len(lines):
        raise Failure(pr.ended, "read+run+write")
    st = pr.steps
    res = {"read_rcs": [st[base + i]["rc"] for i in range(nread)],
           "run_rc": st[base + nread]["rc"], "run": st[base + nread],
           "msa": st[base + nread + 1].get("msa"), "written": {}, "write_rcs": {}}
    for k, (fmt, op) in enumerate(outs):
        res["write_rcs"][fmt] = st[base + nread + 2 + k]["rc"]
        try:
            with open(op, "rb") as fh:
                res["written"][fmt] = fh.read().decode("latin-1")
        except OSError:
            res["written"][fmt] = None
    return res


def cli_args(cfg, fmt=None, out=None, quiet=False):
    a = []
    t = cfg.get("type", 5)
    words = {0: "dna", 1: "internal", 2: "rna", 3: "protein", 4: "divergent"}
    if t in words:
        a += ["--type", words[t]]
    for k in ("gpo", "gpe", "tgpe"):
        v = cfg.get(k, -1)
        if v is not None and v >= 0:
            a += ["--" + k, repr(float(v))]
    a += ["-n", str(cfg.get("threads", 1))]
    if fmt:
        a += ["--format", fmt]
    if out:
        a += ["-o", out]
    if quiet:
        a += ["-q"]
    return a


def run_cli_files(files, cfg, fmt=None, variant="asan", env=None, stdin=None, to_stdout=False):
    """-> (Ended, output text or None)"""
    wd = runner.workdir()
    op = None if to_stdout else wd.path(".out")
    args = cli_args(cfg, fmt=fmt, out=op)
    for f in files:
        args += [f]
    en = runner.run_cli(args, variant=variant, stdin=stdin, env=env)
    if en.bad:
        raise Failure(en, "kalign CLI")
    text = None
    if to_stdout:
        text = en.out.decode("latin-1")
    else:
        try:
            with open(op, "rb") as fh:
                text = fh.read().decode("latin-1")
        except OSError:
            text = None
    return en, text


def msa_rows(msa):
    """(names, rows, lens) from a probe dump, building rows from seq+gaps when not final."""
    names = []
    rows = []
    for q in msa["seqs"]:
        names.append(q["name"])
        if msa["aligned"] == 3 and msa["alnlen"] > 0:
            rows.append(q["seq"])
        else:
            g = q["gaps"]
            s = q["seq"]
            r = []
            for i, c in enumerate(s):
                r.append("-" * g[i])
                r.append(c)
            r.append("-" * g[len(s)])
            rows.append("".join(r))
    return names, rows


def rows_from_gaps(q):
    g = q["gaps"]
    s = q["seq"] if len(q["seq"]) == q["len"] else "".join(c for c in q["seq"] if c != "-")
    r = []
    for i, c in enumerate(s):
        r.append("-" * g[i])
        r.append(c)
    r.append("-" * g[len(s)])
    return "".join(r)


class Rejected(Exception):
    """kalign returned a failure status (cleanly)."""

    def __init__(self, what, info=None):
        Exception.__init__(self, what)
        self.what = what
        self.info = info or {}


def auto_layout(names, seqs):
    """A file layout chosen by the content itself (a pure function of the records, so every case is reproducible): wrap
    width, line terminator and whether the last line is terminated.  The layout never matters (C04), so every check that
    feeds FASTA files exercises all layouts instead of one."""
    import zlib
    h = zlib.crc32(("\x00".join(names) + "\x01" + "\x00".join(seqs)).encode("latin-1", "replace"))
    return {"width": [0, 0, 60, 80, 7, 61][h % 6], "eol": "\r\n" if (h // 6) % 5 == 0 else "\n", "final_eol": (h // 30) % 3 != 0,
            # gap characters already in the file (C04: they never matter): none / in the later records only / everywhere / tails
            "ingaps": [None, None, None, None, "late", "late", "all", "tail"][(h // 90) % 8], "ingap_from": (h // 720) % 70, "ingap_seed": h % 9973}


def auto_headers(names, seqs):
    """For checks that do not look at names: one case in five gives one record (chosen by the content) a FASTA header line of
    300 .. 70000 characters - words, digits, blanks, letters of every kind - as database exports have them."""
    import zlib
    h = zlib.crc32(("\x02".join(seqs)).encode("latin-1", "replace"))
    if h % 5 or not names:
        return list(names)
    k = (h // 5) % len(names)
    L = [300, 1100, 4200, 8300, 16500, 70000][(h // 500) % 6]
    out = list(names)
    out[k] = (names[k] + " family member variant KLH " + "hypothetical protein ACGT kinase-like DEFHIKLMPQRSVWY 42 " * (L // 50 + 1))[:L]
    return out


def align_named(names, seqs, cfg, variant="asan", env=None, hook=None, delays=None, codes=False, width=0, layout=None):
    """One FASTA file -> read+run+dump. Returns dict(names, rows, biotype, alnlen, run)."""
    if layout is None and width == 0:
        layout = auto_layout(names, seqs)
    wd = runner.workdir()
    fp = wd.write(fasta_bytes(names, seqs, width=width, layout=layout), ".fa")
    r = run_files([fp], cfg, variant=variant, env=env, hook=hook, delays=delays, codes=codes)
    if r["read_rcs"] != [0] or r["run_rc"] != 0 or r["msa"] is None:
        raise Rejected("read/run failed", {"read": r["read_rcs"], "run": r["run_rc"]})
    n, rows = msa_rows(r["msa"])
    return {"names": n, "rows": rows, "biotype": r["msa"]["biotype"], "alnlen": r["msa"]["alnlen"], "run": r["run"],
            "msa": r["msa"]}


def split_points(n, parts, seed):
    """parts-1 distinct cut positions in 1..n-1 (pure function)"""
    import random
    if parts <= 1 or n < 2:
        return []
    rnd = random.Random(seed)
    return sorted(rnd.sample(range(1, n), min(parts - 1, n - 1)))


def align_named_files(names, seqs, cfg, cuts, variant="asan", env=None):
    """The records split over several FASTA files at `cuts` (record indices), read into one msa object in order."""
    wd = runner.workdir()
    bounds = [0] + list(cuts) + [len(seqs)]
    files = [wd.write(fasta_bytes(names[a:b], seqs[a:b], layout=auto_layout(names[a:b], seqs[a:b])), ".fa") for a, b in zip(bounds, bounds[1:]) if b > a]
    r = run_files(files, cfg, variant=variant, env=env)
    if any(x != 0 for x in r["read_rcs"]) or r["run_rc"] != 0 or r["msa"] is None:
        raise Rejected("read/run failed", {"read": r["read_rcs"], "run": r["run_rc"]})
    n, rows = msa_rows(r["msa"])
    return {"names": n, "rows": rows, "biotype": r["msa"]["biotype"], "alnlen": r["msa"]["alnlen"], "run": r["run"], "msa": r["msa"]}


def align_arr(seqs, cfg, variant="asan", env=None):
    r = run_arr(seqs, cfg, variant=variant, env=env)
    if r["rc"] != 0:
        raise Rejected("kalign() failed", {"rc": r["rc"]})
    return {"rows": r["rows"], "alnlen": r["alnlen"]}


def biotype_of(seqs, variant="asan"):
    """Kind kalign itself reports for these residues (array path, no alignment)."""
    wd = runner.workdir()
    sp = wd.write(runner.seqset_bytes(seqs), ".seqs")
    pr = runner.run_probe(["arr2msa 0 %s" % sp, "dump 0", "free 0"], variant=variant)
    if pr.ended.bad or pr.ended.rc != 0 or not pr.steps or len(pr.steps) < 2:
        raise Failure(pr.ended, "kalign_arr_to_msa")
    if pr.steps[0]["rc"] != 0 or pr.steps[1].get("msa") is None:
        raise Rejected("kalign_arr_to_msa failed")
    return pr.steps[1]["msa"]["biotype"]
