"""Run the probe / the CLI built from /repo and classify how the process ended."""
import json
import os
import resource
import shutil
import signal
import subprocess
import tempfile

from . import build

TMPROOT = "/dev/shm" if os.path.isdir("/dev/shm") and os.access("/dev/shm", os.W_OK) else os.path.join(build.BUILD, "tmp")

BASE_ENV = {
    "PATH": "/usr/local/bin:/usr/bin:/bin",
    "OMP_WAIT_POLICY": "passive",
    "ASAN_OPTIONS": "exitcode=99:detect_leaks=0:abort_on_error=0:allocator_may_return_null=1:detect_stack_use_after_return=0",
    "UBSAN_OPTIONS": "print_stacktrace=1:halt_on_error=1:exitcode=98",
    "LSAN_OPTIONS": "exitcode=97",
    "TSAN_OPTIONS": "exitcode=96:ignore_noninstrumented_modules=1:halt_on_error=0",
    "LC_ALL": "C",
    "TZ": "UTC",
}

# leak detection is switched on only by the properties that claim it (C05, C16)
LEAK_ENV = {"ASAN_OPTIONS": BASE_ENV["ASAN_OPTIONS"].replace("detect_leaks=0", "detect_leaks=1")}

CPU_LIMIT_S = 120


class Workdir:
    """One scratch directory per worker process; files are numbered."""

    def __init__(self):
        os.makedirs(TMPROOT, exist_ok=True)
        self.d = tempfile.mkdtemp(prefix="kv%d_" % os.getpid(), dir=TMPROOT)
        import itertools
        self.counter = itertools.count(1)     # next() on it is atomic: the valgrind/fuzz legs use threads

    def path(self, suffix=""):
        return os.path.join(self.d, "f%d%s" % (next(self.counter), suffix))

    def write(self, data, suffix=""):
        p = self.path(suffix)
        with open(p, "wb") as fh:
            fh.write(data if isinstance(data, bytes) else data.encode("latin-1"))
        return p

    def clear(self):
        for f in os.listdir(self.d):
            p = os.path.join(self.d, f)
            try:
                if os.path.isdir(p):
                    shutil.rmtree(p, ignore_errors=True)
                else:
                    os.unlink(p)
            except OSError:
                pass

    def close(self):
        shutil.rmtree(self.d, ignore_errors=True)


_wd = None


def workdir():
    global _wd
    if _wd is None or not os.path.isdir(_wd.d) or not _wd.d.startswith(os.path.join(TMPROOT, "kv%d_" % os.getpid())):
        _wd = Workdir()
        import atexit
        atexit.register(_wd.close)
    return _wd


def new_case():
    """called by the engine before every case: scratch files of the previous case are dropped (tmpfs is RAM)"""
    if _wd is not None and os.path.isdir(_wd.d) and _wd.d.startswith(os.path.join(TMPROOT, "kv%d_" % os.getpid())):
        _wd.clear()


def close_workdir():
    global _wd
    if _wd is not None:
        _wd.close()
        _wd = None


def sweep_stale(max_age_s=6 * 3600):
    """remove scratch directories of processes that no longer exist"""
    import time
    try:
        ents = os.listdir(TMPROOT)
    except OSError:
        return
    for e in ents:
        if not e.startswith("kv"):
            continue
        try:
            pid = int(e[2:].split("_")[0])
        except ValueError:
            continue
        p = os.path.join(TMPROOT, e)
        alive = os.path.exists("/proc/%d" % pid)
        try:
            old = time.time() - os.path.getmtime(p) > max_age_s
        except OSError:
            continue
        if not alive or old:
            shutil.rmtree(p, ignore_errors=True)


def _limits(cpu):
    def f():
        resource.setrlimit(resource.RLIMIT_CPU, (cpu, cpu + 5))
        resource.setrlimit(resource.RLIMIT_CORE, (0, 0))
        os.setsid()
    return f


class Ended:
    """How a child process ended."""

    def __init__(self, rc, out, err, timed_out=False):
        self.rc = rc
        self.out = out
        self.err = err
        self.timed_out = timed_out

    @property
    def kind(self):
        e = self.err or ""
        if self.timed_out:
            return "hang"
        if self.rc is not None and self.rc < 0:
            if -self.rc == signal.SIGXCPU or -self.rc == signal.SIGKILL:
                return "hang"
            return "signal:%s" % signal.Signals(-self.rc).name
        if "AddressSanitizer" in e and "LeakSanitizer" not in e.split("AddressSanitizer")[0]:
            if "ERROR: AddressSanitizer" in e:
                return "asan"
        if "ERROR: LeakSanitizer" in e:
            return "leak"
        if "runtime error:" in e:
            return "ubsan"
        if "WARNING: ThreadSanitizer" in e:
            return "tsan"
        if self.rc in (99,):
            return "asan"
        if self.rc in (98,):
            return "ubsan"
        if self.rc in (97,):
            return "leak"
        return "exit:%d" % self.rc

    @property
    def bad(self):
        k = self.kind
        return not k.startswith("exit:")

    def brief(self):
        e = (self.err or "")
        lines = [l for l in e.splitlines() if "ERROR" in l or "runtime error" in l or "SUMMARY" in l or l.strip().startswith("#0") or l.strip().startswith("#1 ") or l.strip().startswith("#2 ")]
        return {"kind": self.kind, "rc": self.rc, "stderr": "\n".join(lines[:12])[:1500] or e[-600:]}


def run_proc(argv, stdin=None, env=None, cpu=CPU_LIMIT_S, wall=None, cwd=None):
    e = dict(BASE_ENV)
    if env:
        e.update(env)
    wall = wall or (cpu * 3 + 30)
    try:
        p = subprocess.Popen(argv, stdin=subprocess.PIPE if stdin is not None else subprocess.DEVNULL,
                             stdout=subprocess.PIPE, stderr=subprocess.PIPE, env=e, cwd=cwd,
                             preexec_fn=_limits(cpu))
    except OSError as ex:
        return Ended(127, b"", str(ex))
    try:
        out, err = p.communicate(stdin, timeout=wall)
        to = False
    except subprocess.TimeoutExpired:
        try:
            os.killpg(p.pid, signal.SIGKILL)
        except OSError:
            p.kill()
        out, err = p.communicate()
        to = True
    return Ended(p.returncode, out, err.decode("latin-1", "replace"), to)


class ProbeResult:
    def __init__(self, ended, steps):
        self.ended = ended
        self.steps = steps

    def step(self, i):
        return self.steps[i] if self.steps is not None and i < len(self.steps) else None


def run_probe(lines, variant="asan", env=None, cpu=CPU_LIMIT_S, heap=False):
    """lines: list of script lines (str). Returns ProbeResult.  heap=True: the malloc-accounting probe (plain variant)."""
    b = build.ensure(variant)
    if heap:
        b = dict(b, probe=b["probe_heap"])
    wd = workdir()
    sp = wd.write("\n".join(lines) + "\n", ".script")
    rp = wd.path(".json")
    en = run_proc([b["probe"], sp, rp], env=env, cpu=cpu)
    steps = None
    try:
        with open(rp, "rb") as fh:
            raw = fh.read().decode("latin-1")
        try:
            steps = json.loads(raw)
        except ValueError:
            # truncated by a crash: keep the complete step records
            recs = []
            for ln in raw.splitlines():
                ln = ln.strip().rstrip(",")
                if ln.startswith("{"):
                    try:
                        recs.append(json.loads(ln))
                    except ValueError:
                        break
            steps = recs
    except OSError:
        steps = None
    return ProbeResult(en, steps)


def run_cli(args, variant="asan", stdin=None, env=None, cpu=CPU_LIMIT_S, cwd=None):
    b = build.ensure(variant)
    return run_proc([b["cli"]] + list(args), stdin=stdin if stdin is not None else None, env=env, cpu=cpu, cwd=cwd)


def seqset_bytes(seqs):
    """Serialise a list of byte strings for the probe's `arr` step."""
    out = [b"%d\n" % len(seqs)]
    for s in seqs:
        if isinstance(s, str):
            s = s.encode("latin-1")
        out.append(b"%d\n" % len(s))
        out.append(s)
        out.append(b"\n")
    return b"".join(out)


def fnum(x):
    """Format a penalty for the script (-1 = not given)."""
    return repr(float(x))
