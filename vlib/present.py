"""Re-presentations of one record set (C04, C13, C17): gapped rows, files in all readable formats."""
import random

from . import formats


def gapped_rows(seqs, frac, seed, gapchar="-", equal=True, min_width=0):
    """Insert gap characters: equal=True gives equal-length rows (an 'alignment') in which about
    `frac` of all cells are gaps; equal=False sprinkles gaps independently per row."""
    rnd = random.Random(seed)
    if equal:
        L = max(len(s) for s in seqs)
        width = max(L + 1, int(L / max(1e-9, 1.0 - frac)) + 1, min_width)
        rows = []
        for s in seqs:
            pos = sorted(rnd.sample(range(width), len(s)))
            r = [gapchar] * width
            for p, c in zip(pos, s):
                r[p] = c
            rows.append("".join(r))
        return rows
    rows = []
    for s in seqs:
        r = []
        for c in s:
            while rnd.random() < frac:
                r.append(gapchar)
            r.append(c)
        while rnd.random() < frac:
            r.append(gapchar)
        rows.append("".join(r))
    return rows


def render_chunk(names, seqs, ch):
    """ch: dict(fmt, gapmode, gapfrac, gapchar, width, eol, trail, blank, seed, cons, counts) -> file text"""
    fmt = ch["fmt"]
    gm = ch.get("gapmode", "none")
    gc = ch.get("gapchar", "-")
    if fmt in ("msf", "clu") or gm == "aligned":
        frac = ch.get("gapfrac", 0.3) if gm != "none" else 0.0
        if frac <= 0 and len(set(len(s) for s in seqs)) > 1:
            frac = 0.01
        rows = gapped_rows(seqs, frac, ch.get("seed", 0), "-", equal=True, min_width=ch.get("min_width", 0)) if (frac > 0 or fmt != "fasta") else list(seqs)
    elif gm == "random":
        rows = gapped_rows(seqs, min(0.9, ch.get("gapfrac", 0.3)), ch.get("seed", 0), "-", equal=False)
    elif gm == "tail":
        # gap / punctuation characters only behind the last residue, a different number per record (ragged end padding,
        # '*' terminators)
        rnd = random.Random(ch.get("seed", 0))
        rows = [s + "".join(rnd.choice("-.*") if ch.get("tailmix") else "-" for _ in range(rnd.choice([0, 1, 1, 2, 5, 17]))) for s in seqs]
        if not any(r != s for r, s in zip(rows, seqs)) and rows:
            rows[-1] += "-"
    else:
        rows = list(seqs)
    eol = ch.get("eol", "\n")
    if fmt == "fasta":
        if gm != "tail":
            rows = [r.replace("-", gc if gc in "-." else "-") for r in rows]
        return formats.write_fasta(names, rows, width=ch.get("width", 60), eol=eol, trail=ch.get("trail", ""),
                                   blank_before=ch.get("blank", 0), lead_blank=ch.get("lead_blank", 0))
    if fmt == "msf":
        return formats.write_msf(names, rows, kind=ch.get("kindletter", "P"), width=(len(rows[0]) if ch.get("unwrapped") else (ch.get("width", 50) or 50)),
                                 group=ch.get("group", 10), gapchar=gc if gc in ".-~" else ".", eol=eol,
                                 pileup=ch.get("pileup", True), ruler=ch.get("ruler", False))
    if fmt == "clu":
        return formats.write_clustal(names, rows, width=(len(rows[0]) if ch.get("unwrapped") else (ch.get("width", 60) or 60)), eol=eol, cons=ch.get("cons", True),
                                     counts=ch.get("counts", False), gapchar="-", group=ch.get("clu_group", 0),
                                     header=ch.get("header", "CLUSTAL W (1.83) multiple sequence alignment"))
    raise ValueError(fmt)
