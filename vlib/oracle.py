"""Validity predicates shared by several properties (pure python, no kalign code)."""


def integrity(names_in, seqs_in, names_out, rows_out, alnlen=None, check_names=True):
    """C01 predicate. names_in/seqs_in: the non-empty inputs in input order.
    Returns None when it holds, else a short description of what is wrong."""
    if len(rows_out) != len(seqs_in):
        return "row count %d != non-empty inputs %d" % (len(rows_out), len(seqs_in))
    if not rows_out:
        return "no rows"
    L = len(rows_out[0])
    if alnlen is not None and alnlen != L:
        return "reported length %d != row length %d" % (alnlen, L)
    for i, (r, s) in enumerate(zip(rows_out, seqs_in)):
        if len(r) != L:
            return "row %d has length %d, row 0 has %d" % (i, len(r), L)
        bad = [c for c in r if c != "-" and not c.isalpha()]
        if bad:
            return "row %d contains %r (only '-' may be added)" % (i, bad[0])
        d = r.replace("-", "")
        if d != s:
            k = 0
            while k < min(len(d), len(s)) and d[k] == s[k]:
                k += 1
            return "row %d without gaps differs from input %d at residue %d (%d vs %d residues): got %r want %r" % (
                i, i, k, len(d), len(s), d[max(0, k - 5):k + 10], s[max(0, k - 5):k + 10])
    if check_names and names_in is not None and names_out is not None:
        if list(names_out) != list(names_in):
            for i, (a, b) in enumerate(zip(names_out, names_in)):
                if a != b:
                    return "row %d is named %r, input %d is named %r" % (i, a[:60], i, b[:60])
            return "names differ in number"
    for c in range(L):
        if all(r[c] == "-" for r in rows_out):
            return "column %d consists of gaps only" % c
    return None


def has_gap(rows):
    return any("-" in r for r in rows)


def gap_pattern(row):
    return "".join("-" if c == "-" else "x" for c in row)


def strip_common_gap_columns(rows):
    if not rows:
        return rows
    n = min(len(r) for r in rows)
    keep = [c for c in range(n) if any(r[c] != "-" for r in rows)]
    return ["".join(r[c] for c in keep) for r in rows]


def sellers(text, pat):
    """min over substrings of text (incl. empty) of edit distance to pat."""
    m = len(pat)
    prev = list(range(m + 1))  # column for j=0: D[i][0] = i
    best = prev[m]
    for tc in text:
        cur = [0] * (m + 1)
        for i in range(1, m + 1):
            cur[i] = min(prev[i] + 1, cur[i - 1] + 1, prev[i - 1] + (pat[i - 1] != tc))
        prev = cur
        if prev[m] < best:
            best = prev[m]
    return best
