"""ctypes wrapper around build/liboracle.so (independent DP / Sellers references)."""
import ctypes
import os

from . import params_model

_lib = None
PROT_ORDER = "ARNDCQEGHILKMFPSTWYVBZX"
DNA_CODE = {"A": 0, "C": 1, "G": 2, "T": 3, "U": 3, "N": 4}
PROT_CODE = {c: i for i, c in enumerate(PROT_ORDER)}
PROT_CODE["U"] = PROT_CODE["X"]   # selenocysteine is scored as the unknown residue


def lib():
    global _lib
    if _lib is None:
        p = os.path.join(os.path.dirname(os.path.dirname(os.path.abspath(__file__))), "build", "liboracle.so")
        _lib = ctypes.CDLL(p)
        _lib.c07_certify.restype = ctypes.c_int
        _lib.c07_best.restype = ctypes.c_double
        _lib.sellers_dist.restype = ctypes.c_int
    return _lib


def encode(seq, kind):
    tab = DNA_CODE if kind == "dna" else PROT_CODE
    return bytes(tab[c] for c in seq.upper())


def flat_subm(name):
    s = params_model.SETS[name]["subm"]
    arr = (ctypes.c_double * 529)()
    for i in range(23):
        for j in range(23):
            arr[i * 23 + j] = s[i][j]
    return arr


def flat_from_list(vals):
    arr = (ctypes.c_double * 529)()
    for i, v in enumerate(vals[:529]):
        arr[i] = v
    return arr


def certify(a, b, kind, set_name, gpo, gpe, tgpe, subm_flat=None):
    """-> dict(cols, opt, m_same, m_diff, junctions, opt_free) ; cols: 0 match, 1 gap in a, 2 gap in b.
    subm_flat: 529 values (23x23, row major) to use instead of the documented set `set_name`."""
    ea, eb = encode(a, kind), encode(b, kind)
    out = (ctypes.c_uint8 * (len(a) + len(b) + 2))()
    n = ctypes.c_int(0)
    info = (ctypes.c_double * 5)()
    rc = lib().c07_certify(ea, len(ea), eb, len(eb), flat_from_list(subm_flat) if subm_flat is not None else flat_subm(set_name),
                           ctypes.c_double(gpo), ctypes.c_double(gpe),
                           ctypes.c_double(tgpe), out, ctypes.byref(n), info)
    if rc != 0:
        return None
    return {"cols": list(out[:n.value]), "opt": info[0], "m_same": info[1], "m_diff": info[2], "junctions": int(info[3]),
            "opt_free": info[4]}


def best(a, b, kind, set_name, gpo, gpe, tgpe, tc):
    ea, eb = encode(a, kind), encode(b, kind)
    return lib().c07_best(ea, len(ea), eb, len(eb), flat_subm(set_name), ctypes.c_double(gpo), ctypes.c_double(gpe),
                          ctypes.c_double(tgpe), ctypes.c_double(tc))


def sellers(text, pat):
    t = text if isinstance(text, bytes) else text.encode("latin-1")
    p = pat if isinstance(pat, bytes) else pat.encode("latin-1")
    return lib().sellers_dist(t, len(t), p, len(p))


def rows_from_cols(a, b, cols):
    ra, rb = [], []
    i = j = 0
    for c in cols:
        if c == 0:
            ra.append(a[i]); rb.append(b[j]); i += 1; j += 1
        elif c == 1:
            ra.append("-"); rb.append(b[j]); j += 1
        else:
            ra.append(a[i]); rb.append("-"); i += 1
    return "".join(ra), "".join(rb)


# ------------------------------------------------------------------ brute force (self test of the oracle's model)

def score_alignment(ra, rb, kind, set_name, gpo, gpe, tgpe, tc, subm_flat=None):
    """Score one explicit alignment (two gapped rows) by the stated model; independent of the DP recurrences."""
    sub = params_model.SETS[set_name]["subm"] if subm_flat is None else [subm_flat[i * 23:(i + 1) * 23] for i in range(23)]
    tab = DNA_CODE if kind == "dna" else PROT_CODE
    L = len(ra)
    cols = [0 if (x != "-" and y != "-") else (1 if x == "-" else 2) for x, y in zip(ra, rb)]
    if 0 not in cols:
        return None
    for k in range(L - 1):
        if cols[k] != 0 and cols[k + 1] != 0 and cols[k] != cols[k + 1]:
            return None     # gap in a directly followed by gap in b: not in kalign's path space
    first = cols.index(0)
    last = L - 1 - cols[::-1].index(0)
    s = 0.0
    for k in range(L):
        if cols[k] == 0:
            s += sub[tab[ra[k].upper()]][tab[rb[k].upper()]]
    if first > 0:
        s -= first * tgpe + tc
    if last < L - 1:
        s -= (L - 1 - last) * tgpe + tc
    k = first
    while k <= last:
        if cols[k] != 0:
            e = k
            while cols[e + 1] == cols[k]:
                e += 1
            s -= 2 * gpo + (e - k) * gpe
            k = e + 1
        else:
            k += 1
    return s


def all_alignments(a, b):
    """every pair of gapped rows without all-gap columns"""
    def rec(i, j):
        if i == len(a) and j == len(b):
            yield ("", "")
            return
        if i < len(a) and j < len(b):
            for x, y in rec(i + 1, j + 1):
                yield (a[i] + x, b[j] + y)
        if j < len(b):
            for x, y in rec(i, j + 1):
                yield ("-" + x, b[j] + y)
        if i < len(a):
            for x, y in rec(i + 1, j):
                yield (a[i] + x, "-" + y)
    return rec(0, 0)
