"""Generated alignments (C06, C15, C17): synthetic ones with exact widths, or inputs for kalign to align."""
import random

from hypothesis import strategies as st

from . import gen

WIDTHS = [1, 2, 7, 59, 60, 61, 119, 120, 121, 179, 180, 181, 240, 300]
LONG_WIDTHS = [511, 512, 513, 530, 700, 1023, 1024, 1025, 1100, 1600, 2100]


def synth_rows(seed, alpha, n, width, density, lower):
    """n rows of exactly `width` columns, no all-gap column, each row >= 1 residue, >= 1 gap overall if width > 1."""
    rnd = random.Random(seed)
    rows = []
    for i in range(n):
        k = max(1, min(width, int(round(width * density)) + rnd.randint(-2, 2)))
        pos = set(rnd.sample(range(width), k))
        rows.append([rnd.choice(alpha) if c in pos else "-" for c in range(width)])
    for c in range(width):
        if all(r[c] == "-" for r in rows):
            rows[rnd.randrange(n)][c] = rnd.choice(alpha)
    if width > 1 and not any("-" in r for r in rows):
        r = rows[rnd.randrange(n)]
        # keep at least one residue in the row and the column
        c = rnd.randrange(width)
        if sum(1 for x in r if x != "-") > 1 and sum(1 for q in rows if q[c] != "-") > 1:
            r[c] = "-"
    out = ["".join(r) for r in rows]
    if lower == "lower":
        out = [r.lower() for r in out]
    elif lower == "mixed":
        out = ["".join(ch.lower() if rnd.random() < 0.4 else ch for ch in r) for r in out]
    return out


@st.composite
def synthetic(draw, max_n=30, widths=None, charset=gen.NAME_CHARS, long_names=True):
    kind, alpha = draw(gen.alphabets())
    # mostly small; a steady trickle of tall alignments (row-index dependent behaviour, line-buffer growth at 1024 lines)
    n = draw(st.one_of(st.integers(2, max_n), st.integers(2, max_n), st.integers(2, max_n), st.integers(40, 160), st.integers(330, 420)))
    width = draw(st.one_of(st.sampled_from(widths or WIDTHS), st.integers(1, 200), st.sampled_from(LONG_WIDTHS)))
    if width > 400:
        # rows longer than the readers' 512-residue buffer increments (and its multiples); keep these cases narrow in rows
        n = min(n, draw(st.integers(2, 8)))
    density = draw(st.sampled_from([0.15, 0.5, 0.8, 0.97]))
    lower = draw(st.sampled_from(["upper", "upper", "lower", "mixed"]))
    seed = draw(st.integers(0, 2 ** 32 - 1))
    rows = synth_rows(seed, alpha, n, width, density, lower)
    if n > 52 and draw(st.integers(0, 2)) == 0:
        # tall alignments whose first (or last) 50..60 rows carry no gap at all: whatever a reader decides from the first rows
        # must also hold for the rest
        import random as _r
        rnd = _r.Random(seed + 1)
        k = min(n - 1, draw(st.sampled_from([50, 50, 51, 52, 60])))
        full = ["".join(rnd.choice(alpha) for _ in range(width)) for _ in range(k)]
        rows = (full + rows[k:]) if draw(st.booleans()) else (rows[:n - k] + full)
        if not any("-" in r for r in rows):
            rows[-1] = "-" + rows[-1][1:] if width > 1 else rows[-1]
    names = draw(gen.names_for(n, charset=charset, long_names=long_names))
    return {"names": names, "rows": rows, "source": "synthetic"}


@st.composite
def to_align(draw, max_n=30, max_len=200, long_names=True):
    ss = draw(gen.seqsets(max_n=max_n, max_len=max_len))
    names = draw(gen.names_for(len(ss["seqs"]), long_names=long_names))
    t = draw(gen.types_for(ss["kind"]))
    return {"names": names, "seqs": ss["seqs"], "type": t, "threads": draw(gen.threads), "source": "kalign"}
