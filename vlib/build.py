"""Build cache: every variant is built from /repo's *current working tree*.

The tree is hashed (all files except .git and _build*), and each variant is
configured with the project's own CMakeLists.txt into
/verif/build/cache/<hash>/<variant>/ under a file lock, so parallel checks
share one build.  Only the newest few hashes are kept.
"""
import fcntl
import hashlib
import os
import shutil
import subprocess
import sys
import time

REPO = os.environ.get("VERIF_REPO", "/repo")
VERIF = os.path.dirname(os.path.dirname(os.path.abspath(__file__)))
BUILD = os.path.join(VERIF, "build")
CACHE = os.path.join(BUILD, "cache")
NATIVE = os.path.join(VERIF, "native")
KEEP_HASHES = 12      # other trees (scratch worktrees of seeded changes) may be under test at the same time
KEEP_SECONDS = 3 * 3600

SAN = "-fsanitize=address,undefined -fno-sanitize-recover=undefined -fno-omit-frame-pointer"

VARIANTS = {
    # name: (CC, cflags, ldflags, cmake extra)
    "asan": ("gcc", "-g -O1 %s -DKALIGN_VERIF" % SAN, SAN, []),
    "plain": ("gcc", "-g -O2 -DKALIGN_VERIF", "", []),
    "noomp": ("gcc", "-g -O1 %s -DKALIGN_VERIF" % SAN, SAN, ["-DUSE_OPENMP=OFF"]),
    "fuzz": ("clang", "-g -O1 -fsanitize=fuzzer-no-link,address,undefined "
             "-fno-sanitize-recover=undefined -fno-omit-frame-pointer -DKALIGN_VERIF",
             "-fsanitize=address,undefined", ["-DUSE_OPENMP=OFF"]),
    "tsan": ("clang", "-g -O1 -fsanitize=thread -DKALIGN_VERIF", "-fsanitize=thread", []),
    # hooks compiled out, the way a user builds it
    "nohook": ("gcc", "-g -O2", "", []),
}


def tree_hash():
    h = hashlib.sha1()
    for root, dirs, files in os.walk(REPO):
        dirs[:] = sorted(d for d in dirs if d != ".git" and not d.startswith("_build")
                         and d not in ("zig-cache", "zig-out"))
        rel = os.path.relpath(root, REPO)
        if rel.startswith("tests/data") or rel.startswith("doc"):
            continue
        for f in sorted(files):
            p = os.path.join(root, f)
            if os.path.islink(p) or not os.path.isfile(p):
                continue
            h.update(os.path.join(rel, f).encode())
            h.update(b"\0")
            with open(p, "rb") as fh:
                h.update(fh.read())
            h.update(b"\0")
    # the probe sources are part of what is built
    for f in sorted(os.listdir(NATIVE)):
        if f.startswith("probe") and (f.endswith(".c") or f.endswith(".h")):
            with open(os.path.join(NATIVE, f), "rb") as fh:
                h.update(fh.read())
    return h.hexdigest()[:16]


class Lock:
    def __init__(self, path):
        self.path = path

    def __enter__(self):
        os.makedirs(os.path.dirname(self.path), exist_ok=True)
        self.fh = open(self.path, "w")
        fcntl.flock(self.fh, fcntl.LOCK_EX)
        return self

    def __exit__(self, *a):
        fcntl.flock(self.fh, fcntl.LOCK_UN)
        self.fh.close()


def _run(cmd, cwd=None, env=None, log=None):
    p = subprocess.run(cmd, cwd=cwd, env=env, stdout=subprocess.PIPE,
                       stderr=subprocess.STDOUT, text=True, errors="replace")
    if log:
        with open(log, "a") as fh:
            fh.write("$ %s\n%s\n" % (" ".join(cmd), p.stdout))
    if p.returncode != 0:
        sys.stderr.write("BUILD FAILED: %s\n%s\n" % (" ".join(cmd), p.stdout[-6000:]))
        raise SystemExit(2)
    return p.stdout


def _prune(keep):
    try:
        ents = [e for e in os.listdir(CACHE) if os.path.isdir(os.path.join(CACHE, e))]
    except FileNotFoundError:
        return
    ents.sort(key=lambda e: os.path.getmtime(os.path.join(CACHE, e)), reverse=True)
    now = time.time()
    for e in ents[KEEP_HASHES:]:
        # never the tree being built, and nothing that a concurrent check may still be using
        if e != keep and now - os.path.getmtime(os.path.join(CACHE, e)) > KEEP_SECONDS:
            shutil.rmtree(os.path.join(CACHE, e), ignore_errors=True)
    live = set(ents)
    for f in os.listdir(CACHE):
        if f.endswith(".lock") and f.split(".")[0] not in live:
            try:
                if now - os.path.getmtime(os.path.join(CACHE, f)) > KEEP_SECONDS:
                    os.unlink(os.path.join(CACHE, f))
            except OSError:
                pass


_memo = {}


def ensure(variant, h=None):
    """Build (if needed) and return paths for one variant of the current tree."""
    h = h or tree_hash()
    key = (h, variant)
    if key in _memo:
        return _memo[key]
    d = os.path.join(CACHE, h, variant)
    stamp = os.path.join(d, "OK")
    out = {
        "dir": d,
        "hash": h,
        "lib": os.path.join(d, "lib", "libkalign_static.a"),
        "cli": os.path.join(d, "src", "kalign"),
        "probe": os.path.join(d, "kprobe"),
        "probe_heap": os.path.join(d, "kprobe_heap"),
        "incbin": os.path.join(d, "lib"),
    }
    if os.path.exists(stamp):
        try:
            os.utime(os.path.join(CACHE, h))
        except OSError:
            pass
        _memo[key] = out
        return out
    with Lock(os.path.join(CACHE, "%s.%s.lock" % (h, variant))):
        if os.path.exists(stamp):
            _memo[key] = out
            return out
        t0 = time.time()
        shutil.rmtree(d, ignore_errors=True)
        os.makedirs(d)
        cc, cflags, ldflags, extra = VARIANTS[variant]
        log = os.path.join(d, "build.log")
        cmake = ["cmake", "-S", REPO, "-B", d, "-DCMAKE_BUILD_TYPE=Verif",
                 "-DCMAKE_C_COMPILER=" + cc,
                 "-DCMAKE_CXX_COMPILER=" + ("clang++" if cc == "clang" else "g++"),
                 "-DBUILD_SHARED_LIBS=OFF", "-DBUILD_TESTING=OFF",
                 "-DCMAKE_C_FLAGS=" + cflags,
                 "-DCMAKE_EXE_LINKER_FLAGS=" + ldflags] + extra
        _run(cmake, log=log)
        _run(["cmake", "--build", d, "--target", "kalign_static", "kalign-bin", "-j", "16"], log=log)
        # probe: the only harness file that sees kalign's internal headers
        omp = "" if variant in ("noomp", "fuzz") else "-fopenmp"
        cmd = [cc] + cflags.replace("-fsanitize=fuzzer-no-link,", "-fsanitize=").split() + \
            ["-DHAVE_OPENMP" if omp else "-DNO_OPENMP",
             "-I", os.path.join(REPO, "lib", "include"), "-I", os.path.join(REPO, "lib", "src"),
             "-I", os.path.join(d, "lib"),
             os.path.join(NATIVE, "probe.c"), out["lib"], "-o", out["probe"], "-lm", "-lpthread", "-ldl"]
        if omp:
            cmd.append(omp)
        cmd += ldflags.split()
        if os.path.exists(os.path.join(NATIVE, "probe.c")):
            _run(cmd, log=log)
            if variant == "plain":
                # second probe with interposed malloc/free accounting (C16 only; never run under valgrind)
                i = cmd.index(out["probe"])
                cmd2 = list(cmd)
                cmd2[i] = out["probe"] + "_heap"
                cmd2.insert(1, "-DHEAP_ACCOUNT")
                _run(cmd2, log=log)
        with open(stamp, "w") as fh:
            fh.write("%.1f\n" % (time.time() - t0))
        _prune(h)
    _memo[key] = out
    return out


if __name__ == "__main__":
    for v in sys.argv[1:] or ["asan"]:
        t = time.time()
        o = ensure(v)
        print(v, o["dir"], "%.1fs" % (time.time() - t))
