"""Hypothesis driver: seeded workers, evidence, replay files, known findings.

A property module provides
    ID, RULE, ASSUMPTIONS (list of str)
    strategy(tier)            -> Hypothesis strategy of JSON-serialisable cases
    check(case)               -> result dict made by ok()/violation()/discard()
    BUDGET = {tier: dict(examples=N, workers=W, seconds=S)}
    optional extra(tier, seed, stats) -> list of violations (enumerated legs etc.)
"""
import hashlib
import json
import multiprocessing
import os
import sys
import time
import traceback
import zlib
from collections import Counter

VERIF = os.path.dirname(os.path.dirname(os.path.abspath(__file__)))
REPLAY_DIR = os.path.join(VERIF, "replay")
# seed/mutation experiments redirect what a run writes, so that committed evidence and replays stay those of /repo itself
EVID_DIR = os.environ.get("VERIF_EVID_DIR") or os.path.join(VERIF, "evidence")
NEW_REPLAY_DIR = os.environ.get("VERIF_NEW_REPLAY_DIR") or REPLAY_DIR
KNOWN_FILE = os.path.join(VERIF, "known_findings.jsonl")


# ----------------------------------------------------------------- results

def ok(nontrivial=False, classes=(), sample=None, key=None):
    return {"status": "ok", "nontrivial": bool(nontrivial), "classes": list(classes), "sample": sample, "key": key}


def violation(detail, classes=(), finding=None, kind="mismatch", sample=None):
    """finding: id of a known finding whose signature this failure matches."""
    return {"status": "violation", "detail": detail, "classes": list(classes), "finding": finding,
            "kind": kind, "nontrivial": True, "sample": sample, "key": None}


def discard(reason, classes=()):
    return {"status": "discard", "reason": reason, "classes": list(classes), "nontrivial": False,
            "sample": None, "key": None}


def case_hash(obj):
    return hashlib.sha1(json.dumps(obj, sort_keys=True, default=str).encode()).hexdigest()[:16]


# ----------------------------------------------------------------- known findings

def load_known():
    out = []
    if os.path.exists(KNOWN_FILE):
        with open(KNOWN_FILE) as fh:
            for ln in fh:
                ln = ln.strip()
                if ln and not ln.startswith("#"):
                    out.append(json.loads(ln))
    return out


_known = None


def known_active(fid):
    """True while finding `fid` is listed as known (not fixed): generators then
    exclude its class by construction."""
    global _known
    if _known is None:
        _known = load_known()
    return any(k.get("id") == fid and k.get("status") == "known" for k in _known)


# ----------------------------------------------------------------- stats

class Stats:
    def __init__(self):
        self.evaluations = 0
        self.nontrivial = set()
        self.classes = Counter()
        self.discards = Counter()
        self.excluded_known = Counter()
        self.samples = []
        self.budget_hit = False
        self.violations = []
        self.extra = {}

    def record(self, case, r):
        self.evaluations += 1
        for c in r.get("classes", ()):
            self.classes[c] += 1
        if r["status"] == "discard":
            self.discards[r["reason"]] += 1
            return
        if r.get("nontrivial"):
            self.nontrivial.add(r.get("key") or case_hash(case))
        s = r.get("sample")
        if s is not None and (len(self.samples) < 3 or (self.evaluations % 97 == 0 and len(self.samples) < 8)):
            self.samples.append(s)

    def to_json(self):
        return {"evaluations": self.evaluations, "nontrivial": sorted(self.nontrivial),
                "classes": dict(self.classes), "discards": dict(self.discards),
                "excluded_known": dict(self.excluded_known), "samples": self.samples,
                "budget_hit": self.budget_hit, "violations": self.violations, "extra": self.extra}


MAX_CONFIRMED = 25     # confirmed, unlisted violations replayed and written as replay files per run


def merge_stats(parts):
    s = Stats()
    for p in parts:
        s.evaluations += p["evaluations"]
        s.nontrivial.update(p["nontrivial"])
        s.classes.update(p["classes"])
        s.discards.update(p["discards"])
        s.excluded_known.update(p["excluded_known"])
        for x in p["samples"]:
            if len(s.samples) < 10:
                s.samples.append(x)
        s.budget_hit = s.budget_hit or p["budget_hit"]
        s.violations.extend(p["violations"])
        for k, v in p.get("extra", {}).items():
            if isinstance(v, (int, float)) and isinstance(s.extra.get(k, 0), (int, float)):
                s.extra[k] = s.extra.get(k, 0) + v
            else:
                s.extra[k] = v
    return s


# ----------------------------------------------------------------- worker

def derive_seed(pid, seed, widx):
    return (zlib.crc32(pid.encode()) * 31 + seed * 1000003 + widx * 7919) % (2 ** 63)


def _worker(modname, tier, seed, widx, examples, seconds, outpath):
    try:
        import importlib
        from hypothesis import HealthCheck, Phase, Verbosity, given, settings
        from hypothesis import seed as hseed
        mod = importlib.import_module(modname)
        stats = Stats()
        t_end = time.time() + seconds
        state = {"fail_keys": {}, "first_fail": None, "last": None}
        shrink_budget = 45 if tier == "quick" else 180

        @hseed(derive_seed(mod.ID, seed, widx))
        @settings(max_examples=examples, database=None, deadline=None, derandomize=False,
                  report_multiple_bugs=False, suppress_health_check=list(HealthCheck),
                  phases=[Phase.generate, Phase.shrink], verbosity=Verbosity.quiet)
        @given(mod.strategy(tier))
        def t(case):
            from . import runner as _runner
            _runner.new_case()
            k = case_hash(case)
            now = time.time()
            if state["first_fail"] is None:
                if now > t_end:
                    stats.budget_hit = True
                    return
            else:
                if now > state["first_fail"] + shrink_budget and k not in state["fail_keys"]:
                    return
            r = mod.check(case)
            if state["first_fail"] is None or r["status"] == "violation":
                pass
            if r["status"] == "violation" and r.get("finding") and known_active(r["finding"]):
                stats.excluded_known[r["finding"]] += 1
                stats.evaluations += 1
                return
            if state["first_fail"] is None:
                stats.record(case, r)
            if r["status"] == "violation":
                if state["first_fail"] is None:
                    state["first_fail"] = now
                state["fail_keys"][k] = True
                state["last"] = {"case": case, "detail": r["detail"], "kind": r.get("kind")}
                raise AssertionError("violation")

        try:
            t()
        except BaseException as e:  # noqa: the failure (or Flaky) is carried in state
            if state["last"] is None:
                stats.violations.append({"case": None, "detail": {"harness_error": "".join(
                    traceback.format_exception(type(e), e, e.__traceback__))[-3000:]}, "kind": "harness"})
        if state["last"] is not None:
            stats.violations.append(state["last"])
        from . import runner as _runner
        _runner.close_workdir()
        with open(outpath, "w") as fh:
            json.dump(stats.to_json(), fh)
    except BaseException as e:
        with open(outpath, "w") as fh:
            s = Stats()
            s.violations.append({"case": None, "detail": {"harness_error": "".join(
                traceback.format_exception(type(e), e, e.__traceback__))[-3000:]}, "kind": "harness"})
            json.dump(s.to_json(), fh)


# ----------------------------------------------------------------- driver

def write_replay(pid, v, tag=None):
    os.makedirs(NEW_REPLAY_DIR, exist_ok=True)
    h = case_hash(v["case"])
    p = os.path.join(NEW_REPLAY_DIR, "%s-%s%s.json" % (pid, tag + "-" if tag else "", h))
    with open(p, "w") as fh:
        json.dump({"property": pid, "case": v["case"], "detail": v["detail"], "kind": v.get("kind")}, fh, indent=1,
                  default=str)
    return p


def _runner_mod():
    from . import runner as _runner
    return _runner


def replay_file(mod, path):
    with open(path) as fh:
        d = json.load(fh)
    _runner_mod().new_case()
    return mod.check(d["case"]), d


def run_check(mod, tier, seed, only_replay=None):
    """Returns process exit code."""
    from . import runner as _runner
    _runner.sweep_stale()
    try:
        return _run_check(mod, tier, seed, only_replay)
    finally:
        _runner.close_workdir()
        _runner.sweep_stale()


def _run_check(mod, tier, seed, only_replay=None):
    t0 = time.time()
    pid = mod.ID
    out_lines = []
    unlisted = []

    if only_replay:
        r, d = replay_file(mod, only_replay)
        print(json.dumps({"status": r["status"], "detail": r.get("detail")}, indent=1, default=str)[:6000])
        if r["status"] == "violation":
            if r.get("finding") and known_active(r["finding"]):
                print("KNOWN-FINDING: property=%s [%s] replay=%s" % (pid, r["finding"], only_replay))
                return 0
            print("VIOLATION property=%s replay=%s" % (pid, only_replay))
            return 1
        return 0

    stats_parts = []
    # 1. replay tier: saved regression cases and known findings
    reg = Stats()
    known = [k for k in load_known() if k.get("property") == pid]
    listed_paths = set()
    for k in known:
        rp = os.path.join(VERIF, k["replay"]) if k.get("replay") else None
        if rp:
            listed_paths.add(os.path.abspath(rp))
        if not rp or not os.path.exists(rp):
            continue
        r, d = replay_file(mod, rp)
        reg.evaluations += 1
        if k["status"] == "known":
            if r["status"] == "violation":
                out_lines.append("KNOWN-FINDING: property=%s %s [%s] replay=%s" % (pid, k["what"], k["id"], k["replay"]))
            else:
                out_lines.append("NOTE: known finding %s no longer reproduces on this tree" % k["id"])
        else:  # fixed: plain regression case, suppresses nothing
            if r["status"] == "violation":
                unlisted.append((rp, r))
    if os.path.isdir(REPLAY_DIR):
        for f in sorted(os.listdir(REPLAY_DIR)):
            p = os.path.abspath(os.path.join(REPLAY_DIR, f))
            if not f.startswith(pid + "-") or not f.endswith(".json") or p in listed_paths:
                continue
            r, d = replay_file(mod, p)
            reg.evaluations += 1
            if r["status"] == "violation":
                if r.get("finding") and known_active(r["finding"]):
                    continue
                unlisted.append((p, r))
    reg.extra["replayed"] = reg.evaluations
    stats_parts.append(reg.to_json())

    # 2. generated search (every build variant the module uses is built first: the time budget of the search is for
    # searching, not for compiling on a fresh checkout)
    try:
        import inspect
        import re as _re
        from . import build as _build
        src = inspect.getsource(mod)
        wanted = {"asan"} | set(_re.findall(r'variant\s*=\s*"(\w+)"', src)) | set(_re.findall(r'build\.ensure\("(\w+)"\)', src))
        if "heap=True" in src:
            wanted.add("plain")
        for v in sorted(wanted):
            if v in _build.VARIANTS:
                _build.ensure(v)
    except SystemExit:
        raise
    except Exception:
        pass
    b = mod.BUDGET[tier]
    workers = b.get("workers", 8)
    tmpd = os.path.join(VERIF, "build", "tmp")
    os.makedirs(tmpd, exist_ok=True)
    procs = []
    ctx = multiprocessing.get_context("fork")
    for w in range(workers):
        op = os.path.join(tmpd, "%s.%d.%d.json" % (pid, os.getpid(), w))
        pr = ctx.Process(target=_worker, args=(mod.__name__, tier, seed, w, b["examples"], b["seconds"], op))
        pr.start()
        procs.append((pr, op))
    for pr, op in procs:
        pr.join()
        try:
            with open(op) as fh:
                stats_parts.append(json.load(fh))
            os.unlink(op)
        except (OSError, ValueError):
            s = Stats()
            s.violations.append({"case": None, "detail": {"harness_error": "worker died (exit %s)" % pr.exitcode},
                                 "kind": "harness"})
            stats_parts.append(s.to_json())

    # 3. optional enumerated / extra legs
    if hasattr(mod, "extra"):
        es = Stats()
        try:
            for v in mod.extra(tier, seed, es) or []:
                es.violations.append(v)
        except BaseException as e:
            es.violations.append({"case": None, "detail": {"harness_error": "".join(
                traceback.format_exception(type(e), e, e.__traceback__))[-3000:]}, "kind": "harness"})
        stats_parts.append(es.to_json())

    stats = merge_stats(stats_parts)

    # 4. confirm each generated failure by replaying it before it is reported
    harness_errors = []
    for v in stats.violations:
        if v.get("kind") == "harness" or v.get("case") is None:
            harness_errors.append(v)
            continue
        if len(unlisted) >= MAX_CONFIRMED:
            # a tree that breaks the property everywhere: enough confirmed reproductions are on record; replaying hundreds
            # more (each up to the cpu limit) only delays the verdict
            stats.extra.setdefault("violations_not_replayed", 0)
            stats.extra["violations_not_replayed"] += 1
            continue
        reps = 0
        tries = 0
        last = None
        need = 3 if v.get("kind") == "hang" else 1
        for _ in range(3):
            _runner_mod().new_case()
            r = mod.check(v["case"])
            tries += 1
            if r["status"] == "violation":
                reps += 1
                last = r
                if need == 1:
                    break
        if reps >= need or getattr(mod, "TRUST_SINGLE", False):
            if last is not None:
                v["detail"] = last["detail"]
            v["reproduced"] = "%d/%d" % (reps, tries)
            if last is not None and last.get("finding") and known_active(last["finding"]):
                continue
            p = write_replay(pid, v)
            unlisted.append((p, {"detail": v["detail"]}))
        else:
            stats.extra.setdefault("unreproduced", 0)
            stats.extra["unreproduced"] += 1

    wall = time.time() - t0
    ev = {
        "property_id": pid,
        "tier": tier,
        "seed": seed,
        "level": "exploration",
        "coverage": {
            "evaluations": stats.evaluations,
            "distinct_nontrivial": len(stats.nontrivial),
            "rule": mod.RULE,
            "samples": stats.samples[:10],
            "classes": dict(stats.classes),
            "discards": dict(stats.discards),
            "excluded_known": dict(stats.excluded_known),
            "budget_hit": stats.budget_hit,
            "workers": workers,
            "exhaustive": bool(stats.extra.get("exhaustive", False)),
        },
        "assumptions": list(getattr(mod, "ASSUMPTIONS", [])),
        "wall_s": round(wall, 2),
        "violations": len(unlisted),
    }
    for k2, v2 in stats.extra.items():
        if k2 not in ev["coverage"]:
            ev["coverage"][k2] = v2
    os.makedirs(EVID_DIR, exist_ok=True)
    with open(os.path.join(EVID_DIR, pid + ".json"), "w") as fh:
        json.dump(ev, fh, indent=1, default=str)

    for ln in out_lines:
        print(ln)
    print("%s tier=%s seed=%d evaluations=%d distinct_nontrivial=%d discards=%s budget_hit=%s wall=%.1fs" % (
        pid, tier, seed, stats.evaluations, len(stats.nontrivial), dict(stats.discards), stats.budget_hit, wall))
    if harness_errors:
        for h in harness_errors:
            sys.stderr.write("HARNESS ERROR (not a verdict about kalign): %s\n" % json.dumps(h["detail"])[:3000])
        return 3
    if unlisted:
        seen = set()
        for p, r in unlisted:
            if p in seen:
                continue
            seen.add(p)
            print("detail: %s" % json.dumps(r.get("detail"), default=str)[:800])
            print("VIOLATION property=%s replay=%s" % (pid, os.path.relpath(p, VERIF) if p.startswith(VERIF) else p))
        return 1
    return 0
