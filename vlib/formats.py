"""Independent writers and strict parsers for FASTA / MSF / Clustal.

Nothing here shares code with kalign: the parsers judge what kalign writes
(C01, C06, C15) and the writers produce the re-presentations kalign must read
(C04, C06, C17).
"""
import re


class FormatError(Exception):
    pass


# ----------------------------------------------------------------- helpers

def gcg_checksum(row):
    """GCG per-sequence checksum (as published in the GCG / squid sources)."""
    chk = 0
    for i, c in enumerate(row):
        chk = (chk + (i % 57 + 1) * ord(c.upper())) % 10000
    return chk


def degap(row):
    return "".join(c for c in row if c.isalpha())


# ----------------------------------------------------------------- parsers

def parse_fasta(text, strict_wrap=None):
    """Returns list of (name, row, line_lengths). strict_wrap=60 checks wrapping."""
    recs = []
    cur = None
    for ln in text.split("\n"):
        if ln.startswith(">"):
            cur = [ln[1:], [], []]
            recs.append(cur)
        elif ln == "":
            continue
        else:
            if cur is None:
                raise FormatError("sequence line before first header: %r" % ln[:40])
            cur[1].append(ln)
            cur[2].append(len(ln))
    out = []
    for name, lines, lens in recs:
        if strict_wrap:
            for i, l in enumerate(lens):
                last = i == len(lens) - 1
                if (not last and l != strict_wrap) or (last and not (1 <= l <= strict_wrap)):
                    raise FormatError("FASTA record %r: line %d has %d columns (wrap %d)" % (name[:30], i, l, strict_wrap))
        out.append((name, "".join(lines), lens))
    return out


def _parse_blocks(lines, nseq_hint=None, max_cols=60):
    """Interleaved blocks: 'name  seq'. Returns (names, rows, nblocks); strict."""
    blocks = []
    cur = []
    for ln in lines:
        if ln.strip() == "":
            if cur:
                blocks.append(cur)
                cur = []
            continue
        if ln[0].isspace():
            # conservation / ruler line: not a sequence line
            continue
        cur.append(ln)
    if cur:
        blocks.append(cur)
    if not blocks:
        raise FormatError("no sequence blocks")
    names = None
    rows = None
    for bi, blk in enumerate(blocks):
        bn = []
        bs = []
        for ln in blk:
            parts = ln.split()
            # name = first word; the rest is sequence, possibly written in groups and followed by a residue count
            while len(parts) > 2 and parts[-1].isdigit():
                parts.pop()
            if len(parts) < 2:
                raise FormatError("block %d: cannot split line %r" % (bi, ln[:60]))
            bn.append(parts[0])
            bs.append("".join(parts[1:]))
        if names is None:
            names = bn
            rows = [[] for _ in bn]
        if bn != names:
            raise FormatError("block %d lists %r, first block lists %r" % (bi, bn[:5], names[:5]))
        w = set(len(s) for s in bs)
        if len(w) != 1:
            raise FormatError("block %d: unequal widths %r" % (bi, sorted(w)))
        wv = w.pop()
        if wv > max_cols or wv < 1:
            raise FormatError("block %d: %d columns" % (bi, wv))
        if bi < len(blocks) - 1 and wv != max_cols:
            raise FormatError("block %d of %d is not full: %d columns" % (bi, len(blocks), wv))
        for r, s in zip(rows, bs):
            r.append(s)
    return names, ["".join(r) for r in rows], len(blocks)


def parse_clustal(text):
    lines = text.split("\n")
    if not lines or "multiple sequence alignment" not in lines[0]:
        raise FormatError("Clustal: first line is not a header: %r" % (lines[0][:60] if lines else ""))
    names, rows, nb = _parse_blocks(lines[1:])
    return {"header": lines[0], "names": names, "rows": rows, "blocks": nb}


_MSF_HDR = re.compile(r"MSF:\s*(\d+)\s+Type:\s*(\S)\s+.*Check:\s*(\d+)\s+\.\.")
_MSF_NAME = re.compile(r"^\s*Name:\s*(\S+)\s+Len:\s*(\d+)\s+Check:\s*(\d+)\s+Weight:\s*([0-9.]+)\s*$")


def parse_msf(text):
    lines = text.split("\n")
    if not lines:
        raise FormatError("MSF: empty")
    first = lines[0].strip()
    kind = None
    if first.startswith("!!AA_MULTIPLE_ALIGNMENT"):
        kind = "P"
    elif first.startswith("!!NA_MULTIPLE_ALIGNMENT"):
        kind = "N"
    else:
        raise FormatError("MSF: first line %r is not a !!AA/!!NA_MULTIPLE_ALIGNMENT line" % first[:40])
    hdr = None
    entries = []
    i = 1
    sep = None
    while i < len(lines):
        ln = lines[i]
        if ln.strip() == "//":
            sep = i
            break
        m = _MSF_HDR.search(ln)
        if m and hdr is None and "Name:" not in ln:
            hdr = {"len": int(m.group(1)), "type": m.group(2), "check": int(m.group(3))}
        elif "Name:" in ln:
            m2 = _MSF_NAME.match(ln)
            if not m2:
                raise FormatError("MSF: malformed Name line %r" % ln[:80])
            entries.append({"name": m2.group(1), "len": int(m2.group(2)), "check": int(m2.group(3))})
        i += 1
    if hdr is None:
        raise FormatError("MSF: no 'MSF: <len> Type: <t> Check: <n> ..' line")
    if sep is None:
        raise FormatError("MSF: no // separator")
    names, rows, nb = _parse_blocks(lines[sep + 1:])
    return {"kind_line": kind, "hdr": hdr, "entries": entries, "names": names, "rows": rows, "blocks": nb}


def parse_any(fmt, text):
    """-> (names, rows) for kalign output in `fmt`."""
    if fmt in ("fasta", "fa"):
        r = parse_fasta(text)
        return [x[0] for x in r], [x[1] for x in r]
    if fmt == "clu":
        r = parse_clustal(text)
        return r["names"], r["rows"]
    if fmt == "msf":
        r = parse_msf(text)
        return r["names"], r["rows"]
    raise ValueError(fmt)


# ----------------------------------------------------------------- writers

def write_fasta(names, rows, width=0, eol="\n", trail="", blank_before=0, blank_between=0, lead_blank=0):
    out = []
    out.extend([""] * lead_blank)
    for n, r in zip(names, rows):
        out.extend([""] * blank_before)
        out.append(">" + n)
        if width and width > 0:
            chunks = [r[i:i + width] for i in range(0, len(r), width)] or [""]
        else:
            chunks = [r]
        for k, c in enumerate(chunks):
            out.append(c + trail)
            if blank_between and k < len(chunks) - 1:
                out.extend([""] * blank_between)
    return eol.join(out) + eol


def write_msf(names, rows, kind="P", width=50, group=10, gapchar=".", eol="\n", pileup=True, namepad=None, ruler=False):
    """GCG style MSF as PileUp/BAliBASE write it."""
    n = len(rows[0]) if rows else 0
    rows = [r.replace("-", gapchar) for r in rows]
    out = []
    if pileup:
        out += ["PileUp", "", "", ""]
    else:
        out += ["!!%s_MULTIPLE_ALIGNMENT 1.0" % ("AA" if kind == "P" else "NA"), ""]
    tot = sum(gcg_checksum(r) for r in rows) % 10000
    out.append("   MSF: %4d  Type: %s    Check: %5d   .. " % (n, kind, tot))
    out.append("")
    for nm, r in zip(names, rows):
        out.append(" Name: %s oo  Len: %4d  Check: %5d  Weight:  10.0" % (nm, n, gcg_checksum(r)))
    out += ["", "//", "", ""]
    pad = (namepad or (max(len(x) for x in names) + 6))
    for s in range(0, max(n, 1), width):
        out.append("")
        if ruler:
            # GCG prints the first and last column number of the block above it (a line that starts with blanks)
            last = min(n, s + width)
            span = (last - s) + ((last - s - 1) // group if group else 0)
            left = str(s + 1)
            out.append(" " * pad + left + " " * max(1, span - len(left) - len(str(last))) + str(last))
        for nm, r in zip(names, rows):
            seg = r[s:s + width]
            if group:
                seg = " ".join(seg[i:i + group] for i in range(0, len(seg), group))
            out.append(nm.ljust(pad) + seg + " ")
        out.append("")
    return eol.join(out) + eol


def write_clustal(names, rows, width=60, header="CLUSTAL W (1.83) multiple sequence alignment", eol="\n",
                  cons=True, counts=False, gapchar="-", group=0):
    n = len(rows[0]) if rows else 0
    rows = [r.replace("-", gapchar) for r in rows]
    pad = max(len(x) for x in names) + 6
    out = [header, "", ""]
    run = [0] * len(rows)
    for s in range(0, max(n, 1), width):
        for k, (nm, r) in enumerate(zip(names, rows)):
            seg = r[s:s + width]
            ln = nm.ljust(pad) + (" ".join(seg[i:i + group] for i in range(0, len(seg), group)) if group else seg)
            if counts:
                run[k] += sum(1 for c in seg if c.isalpha())
                ln += " %d" % run[k]
            out.append(ln)
        if cons:
            w = len(rows[0][s:s + width])
            out.append(" " * pad + "".join("*" if (i % 7) == 3 else (":" if (i % 11) == 5 else " ") for i in range(w)))
        out.append("")
    return eol.join(out) + eol


def write_any(fmt, names, rows, **kw):
    if fmt in ("fasta", "fa"):
        return write_fasta(names, rows, **kw)
    if fmt == "msf":
        return write_msf(names, rows, **kw)
    if fmt == "clu":
        return write_clustal(names, rows, **kw)
    raise ValueError(fmt)
