#!/usr/bin/env python3
"""Run the checks against a property-PRESERVING change (benign/<name>.diff): every check must stay quiet.

usage: tools/benigntest.py benign/<name>.diff [CHECK ...] [--tier quick] [--seed N]
The patch is applied to a scratch worktree of /repo under /tmp/benigntest (removed afterwards); /repo is not touched.
Appends one line per check to benign/runs.jsonl.
"""
import json
import os
import shutil
import subprocess
import sys
import time

HERE = os.path.dirname(os.path.dirname(os.path.abspath(__file__)))
ALL = ["C%02d" % i for i in range(1, 18)]


def main():
    args = sys.argv[1:]
    tier, seed = "quick", "1"
    if "--tier" in args:
        i = args.index("--tier"); tier = args[i + 1]; del args[i:i + 2]
    if "--seed" in args:
        i = args.index("--seed"); seed = args[i + 1]; del args[i:i + 2]
    patch = os.path.abspath(args[0])
    name = os.path.basename(patch)[:-5]
    checks = args[1:] or ALL
    wt = "/tmp/benigntest/%s" % name
    subprocess.run(["git", "-C", "/repo", "worktree", "remove", "--force", wt], capture_output=True)
    shutil.rmtree(wt, ignore_errors=True)
    os.makedirs("/tmp/benigntest", exist_ok=True)
    subprocess.run(["git", "-C", "/repo", "worktree", "add", "-q", "--detach", wt, "HEAD"], check=True)
    bad = 0
    try:
        subprocess.run(["git", "-C", wt, "apply", "-3", patch], check=True, capture_output=True)
        scratch = "/tmp/benigntest/out.%s" % name
        shutil.rmtree(scratch, ignore_errors=True)
        os.makedirs(scratch)
        env = dict(os.environ, VERIF_REPO=wt, VERIF_EVID_DIR=scratch, VERIF_NEW_REPLAY_DIR=scratch, VERIF_SEED=seed, VERIF_TIER=tier)
        for c in checks:
            t0 = time.time()
            p = subprocess.run([os.path.join(HERE, "check"), c, "--tier", tier], env=env, cwd=HERE, capture_output=True, text=True)
            viol = [l for l in p.stdout.splitlines() if l.startswith("VIOLATION")]
            det = [l for l in p.stdout.splitlines() if l.startswith("detail:")]
            rec = {"patch": name, "check": c, "tier": tier, "seed": int(seed), "exit": p.returncode, "quiet": p.returncode == 0 and not viol,
                   "violations": len(viol), "first_detail": det[0][:600] if det else None, "wall_s": round(time.time() - t0, 1)}
            if not rec["quiet"]:
                bad += 1
                rec["tail"] = (p.stdout[-1500:] + p.stderr[-1500:])
            with open(os.path.join(HERE, "benign", "runs.jsonl"), "a") as fh:
                fh.write(json.dumps(rec) + "\n")
            print(json.dumps({k: v for k, v in rec.items() if k != "tail"}), flush=True)
        shutil.rmtree(scratch, ignore_errors=True)
    finally:
        subprocess.run(["git", "-C", "/repo", "worktree", "remove", "--force", wt], capture_output=True)
        shutil.rmtree(wt, ignore_errors=True)
    return 1 if bad else 0


if __name__ == "__main__":
    sys.exit(main())
