#!/usr/bin/env python3
"""Build the libFuzzer seed corpus (small valid inputs in the three formats + trimmed copies of tests/data)."""
import os
import sys

HERE = os.path.dirname(os.path.dirname(os.path.abspath(__file__)))
sys.path.insert(0, HERE)
from vlib import formats  # noqa

OUT = os.path.join(HERE, "corpus", "pipeline")
os.makedirs(OUT, exist_ok=True)
TAIL = bytes([0, 0, 0, 0, 5])   # nfiles=1, penalties not given, type undefined (FuzzedDataProvider reads integrals from the end)


def put(name, body, tail=TAIL):
    with open(os.path.join(OUT, name), "wb") as fh:
        fh.write(body[:3900] + tail)


names = ["s1", "s2", "s3", "s4"]
dna = ["ACGTACGTTGCATTGACC", "ACGTCGTTGCAATGACC", "ACTTACGTGCATTGAC", "ACGTACGTTGCA"]
prot = ["MKVLAAGIDEFWHYRT", "MKVLGGIDEFWHYR", "MKILAAGDEFWYRT", "MKVLAAGIDEFW"]
rows = ["ACGT-ACGT", "AC-TTACGT", "ACGTTAC-T", "A--TTACGT"]
put("fa_dna", formats.write_fasta(names, dna).encode())
put("fa_prot", formats.write_fasta(names, prot, width=7).encode())
put("afa", formats.write_fasta(names, rows).encode())
put("msf", formats.write_msf(names, rows, kind="N").encode())
put("msf2", formats.write_msf(names, rows, kind="N", pileup=False, gapchar="-").encode())
put("clu", formats.write_clustal(names, rows).encode())
put("fa_empty_record", b">a\nACGT\n>b\n\n>c\nACGA\n")
put("two_files", formats.write_fasta(names[:2], dna[:2]).encode() + b"\\x" + formats.write_fasta(names[2:], dna[2:]).encode(), bytes([1, 0, 0, 0, 0]))
data = "/repo/tests/data"
for f in ("tiny.fa", "small.fa", "clustal.good.2", "a2m.good.1", "afa.good.1", "BB11001.msf", "tiny_internal.fa"):
    p = os.path.join(data, f)
    if os.path.exists(p):
        with open(p, "rb") as fh:
            put("data_" + f.replace(".", "_"), fh.read())
OUT2 = os.path.join(HERE, "corpus", "arr")
os.makedirs(OUT2, exist_ok=True)
with open(os.path.join(OUT2, "dna"), "wb") as fh:
    fh.write(b"ACGTACGTTGCA\\xACGTCGTTGCAA\\xACTTACGTGCA" + bytes([1, 1, 5]))
with open(os.path.join(OUT2, "prot"), "wb") as fh:
    fh.write(b"MKVLAAGIDEFWHY\\xMKVLGGIDEFWHYR\\xMKILAAGDEFWY" + bytes([0, 1, 5]))
print(len(os.listdir(OUT)), "pipeline seeds;", len(os.listdir(OUT2)), "arr seeds")
