#!/bin/bash
# tools/seedimport.sh <worktree> <seed id> <property> "<what it needs to manifest>"  : confirm + copy into seeded/<id>/
wt="$1"; id="$2"; prop="$3"; needs="$4"
here="$(cd "$(dirname "$0")/.." && pwd)"
conf=$("$here/tools/seedconfirm.sh" "$wt")
echo "$conf"
mkdir -p "$here/seeded/$id"
cp -r "$wt"/seed_out/* "$here/seeded/$id/"
find "$here/seeded/$id" -size +300k -delete
base=$(git -C "$wt" rev-parse --short HEAD)
python3 - "$here/seeded/$id/meta.json" "$prop" "$needs" "$conf" "$wt" "$base" <<'PY'
import json,sys
json.dump({"base_commit":sys.argv[6],"property":sys.argv[2],"needs_to_manifest":sys.argv[3],"origin":"independent sub-agent given only the property text and a scratch worktree (%s)"%sys.argv[5],
 "confirmed_in_scratch_worktree":json.loads(sys.argv[4]),
 "what_was_run":"tools/seedconfirm.sh: patch == worktree diff; cmake build; ctest (12 tests) </dev/null; demo.sh with the change (must fail) and after git apply -R (must pass)"},open(sys.argv[1],"w"),indent=1)
PY
