#!/bin/bash
# Confirm a sub-agent's seeded change in its own scratch worktree:
#   patch == uncommitted diff; builds; the 12 existing tests pass; demo fails with the change and passes without it.
# usage: tools/seedconfirm.sh <worktree>    (prints a JSON line)
wt="$1"
export OMP_WAIT_POLICY=passive
cd "$wt" || exit 2
git diff -- lib src > /tmp/seedconfirm.$$.diff
same=no; diff -q <(grep -v '^index ' /tmp/seedconfirm.$$.diff) <(grep -v '^index ' seed_out/patch.diff) >/dev/null 2>&1 && same=yes
rm -f /tmp/seedconfirm.$$.diff
build() { cmake -S . -B _build -DCMAKE_BUILD_TYPE=Release >/dev/null 2>&1 && cmake --build _build -j8 >/dev/null 2>&1; }
build || { echo '{"error":"build with change failed"}'; exit 1; }
tests=$(ctest --test-dir _build -j8 --timeout 900 2>&1 </dev/null | grep -E "tests passed|tests failed" | head -1)
(cd seed_out && timeout 900 bash ./demo.sh >/tmp/seedconfirm.with.log 2>&1 </dev/null); with=$?
git apply -R seed_out/patch.diff || { echo '{"error":"reverse apply failed"}'; exit 1; }
build; (cd seed_out && timeout 900 bash ./demo.sh >/tmp/seedconfirm.without.log 2>&1 </dev/null); without=$?
git apply seed_out/patch.diff
build
echo "{\"patch_matches_worktree\":\"$same\",\"tests\":\"$tests\",\"demo_exit_with_change\":$with,\"demo_exit_without_change\":$without}"
