#!/usr/bin/env python3
"""Regenerate MANIFEST.json from the table below (only properties whose module exists are claimed)."""
import json
import os
import subprocess

HERE = os.path.dirname(os.path.dirname(os.path.abspath(__file__)))

CHECKS = {
    "C01": dict(
        technique="property-based testing (Hypothesis): generated inputs x configurations x entry points against a validity predicate, independent file parsers",
        text="Generated-input search: thousands of sequence sets (families with real indels, unrelated, degenerate, duplicates, empty members, >=100 sequences, >=500 columns) x types x penalties x threads x 10 entry points; every result and every written file (parsed by independent readers) is held to the full two-directional predicate (row count, order, names, equal lengths, de-gapped row == input byte for byte, no all-gap column, only '-' added). Exploration: it finds violations, it does not prove absence.",
        note="Trusted: the python predicate and parsers in vlib/oracle.py, vlib/formats.py; the probe's dump of the msa object. Sizes bounded (quick <=160 seqs / 900 residues, thorough <=1200 / 3000).",
        design="4 C01"),
    "C02": dict(
        technique="property-based testing with harness-owned schedule perturbation: differential against the 1-thread run and the no-OpenMP build + event-log history invariants (+ TSan/Archer leg in thorough)",
        text="For generated inputs aimed at each parallel region, runs with generated thread counts, OpenMP environments and delay tables (injected through the guarded event hook) must give byte-identical rows to the single-thread run and to the library built without OpenMP; the event log of every run must show child merges ending before the parent begins and both DP halves ending before the meet-up. Schedules are sampled, not enumerated.",
        note="Trusted: hook events are emitted where the code really is (add-only macros); libgomp/libomp behave as on a user's machine. A race needing an ordering the sampler never produces is missed.",
        design="4 C02"),
    "C03": dict(
        technique="metamorphic property-based testing (Hypothesis): permuted input vs original",
        text="Generated named sets (2..150 sequences, many length ties and duplicates under different names, both sides of the 100 switch) are aligned in two orders; row(name) and the alignment length must be identical and rows must follow each run's own order.",
        note="Names distinct within the first 255 characters (MSA_NAME_LEN); sizes bounded by the tier.",
        design="4 C03"),
    "C04": dict(
        technique="metamorphic property-based testing (Hypothesis): re-presentations (format, gaps, wrapping, padding, multi-file, stdin) vs canonical FASTA",
        text="Each generated record set is presented canonically (one FASTA file) and re-presented by independent writers (FASTA widths/CRLF/blank lines/padding, inserted gap characters up to mostly-gap alignments, MSF, Clustal, 1..4 files, stdin); library and CLI results must be identical by name and row.",
        note="TAB/control characters inside sequence lines are not generated (the reader cuts lines there); writers are mine and modelled on tests/data.",
        design="4 C04"),
    "C05": dict(
        engine="libfuzzer+hypothesis",
        technique="coverage-guided fuzzing (libFuzzer + ASan/UBSan/LSan, structure-aware decode, in-target alignment oracle) + Hypothesis CLI/option fuzzing + valgrind memcheck sampling + enumerated letter mapping",
        text="libFuzzer drives read->run->write in-process with a semantic oracle inside the target; Hypothesis drives the sanitised CLI with generated option strings, malformed/odd files and unreadable/unwritable paths and judges exit status, diagnostics and output validity; a sample runs under valgrind for uninitialised reads; every letter x kind is enumerated for a defined, case-insensitive internal code.",
        note="Bounded input sizes (4 KiB byte level); 'never' is sampled, not proved. Only crash-/leak- artefacts count for the fuzzer.",
        design="4 C05"),
    "C06": dict(
        technique="round-trip property-based testing (Hypothesis) with independent truth",
        text="Generated alignments (kalign's own results and synthetic alignments hitting widths 59/60/61/119/120/121.., long names, lower case) are written by kalign in each format and read back by kalign, over chains of 1..3 formats covering all ordered pairs; names, residues and gap positions of the re-read object must equal what was written.",
        note="Gap-free alignments are by design not recognised as aligned; they are compared after the first hop only.",
        design="4 C06"),
    "C07": dict(
        technique="differential property-based testing against an independent full-matrix DP with a margin certificate",
        text="Planted pairs (substitutions, indels, overhangs; groups of 1..3 identical copies; all types and explicit penalties; both sides of the 500-column switch) are aligned by kalign; an independent O(nm) three-state DP in double precision computes the optimum and proves a safety margin over every other alignment; only certified cases are judged and kalign must return exactly the optimum.",
        note="Trusted: the oracle's transcription of the scoring model (cross-checked by brute force for short lengths and by agreement on thousands of certified cases); margin covers the centre bias and float32 rounding.",
        design="4 C07"),
    "C08": dict(
        technique="property-based testing (Hypothesis): generated identical-sequence sets, gap-free oracle",
        text="One generated string (nucleotide incl. IUPAC/all-N, protein incl. BZX/all-X, homopolymers; lengths 1..5000) x 2..500 copies x admissible types x threads through array and file API: every row must equal the string.",
        note="Type admissibility follows the kind kalign itself reports for the string.",
        design="4 C08"),
    "C09": dict(
        technique="model-based property testing: exhaustive enumeration of kind x type x override subsets against a table transcribed from the documentation, end-to-end parameter observation through the guarded hook, metamorphic alignment equality",
        text="aln_param_init is enumerated over 2 kinds x 6 types x 8 subsets of overrides with generated values against a model transcribed from README/aln_param.c; kalign_run and the CLI are observed through the PARAMS hook for every documented --type word; explicit-default runs must equal default runs and CLI runs must equal library runs.",
        note="Trusted: my transcription of the documented parameter sets; the hook reports the aln_param actually used.",
        design="4 C09"),
    "C10": dict(
        technique="property-based testing with history invariant: snapshots at node completion (guarded hook) vs projection of the final alignment",
        text="For generated inputs (UPGMA and k-means trees, balanced and caterpillar shapes) every internal node's member gap vectors are snapshotted when the node completes; in the final alignment the node's rows with common gap columns removed must equal the snapshot alignment.",
        note="Trusted: snapshot taken in the MERGE_END hook on the merging thread; sizes bounded.",
        design="4 C10"),
    "C11": dict(
        engine="rapidcheck",
        technique="exhaustive enumeration (small alphabets/lengths) + rapidcheck random testing against a Sellers DP reference, AVX2 and non-AVX2 builds",
        text="bpm.c is compiled into the harness twice (with and without AVX2); bpm_block, bpm and bpm_256 are compared with a plain O(nm) semi-global edit-distance reference exhaustively for alphabets of 2-3 symbols and short lengths, and on rapidcheck-generated pairs concentrated on 64-symbol block boundaries and the 1024 cap.",
        note="Reference is the textbook Sellers recurrence; exhaustive part is complete only up to the stated lengths.",
        design="4 C11"),
    "C12": dict(
        technique="property-based testing (Hypothesis) with premise checked by an independent edit-distance oracle",
        text="Generated inputs of 2..99 sequences with duplicated members; the containment premise is verified by an independent Sellers distance on the full and reduced alphabets; all copies must receive byte-identical rows.",
        note="Cases failing the premise are discarded and counted.",
        design="4 C12"),
    "C13": dict(
        technique="property-based testing (Hypothesis) + boundary enumeration of compositions against the stated premises",
        text="Compositions satisfying premise 1 (only ACGTUN) or premise 2 (>= 1/4 protein-only letters) are generated and enumerated near the boundary; the biotype kalign reports must be the expected kind, invariant under permutation and renaming, through the array API and the readers.",
        note="Compositions satisfying neither premise are not judged.",
        design="4 C13"),
    "C14": dict(
        technique="metamorphic property-based testing (Hypothesis): case flips and T/U swaps",
        text="Input A and A' (A with a generated mask of case flips and T<->U swaps) are aligned with the same options; gap patterns must be identical and A' rows must carry A' letters.",
        note="Pairs whose detected kind differs are discarded (kind is C13's subject).",
        design="4 C14"),
    "C15": dict(
        technique="property-based testing (Hypothesis) with strict independent format parsers and an own GCG checksum",
        text="Generated alignments are written by kalign in the three formats and parsed by strict independent readers: FASTA wrap at 60, Clustal/MSF header + full blocks with every sequence, MSF length fields, per-row GCG checksums and molecule type.",
        note="Trusted: my parsers and checksum implementation (the published GCG algorithm).",
        design="4 C15"),
    "C16": dict(
        technique="stateful property-based testing (Hypothesis): generated API-call programs, reference = each unit in a fresh process, LeakSanitizer at exit",
        text="Generated programs interleave kalign(), read/run/write/free, compare and application heap traffic in one sanitised process; each unit's results must equal those of the same unit run alone in a fresh process, and LeakSanitizer must be silent at exit.",
        note="libgomp's thread pool is reachable at exit and not reported.",
        design="4 C16"),
    "C17": dict(
        technique="differential property-based testing against an independent implementation of the score definition + metamorphic relations",
        text="Generated pairs of alignments of the same uniquely named sequences (in-process results or files in all formats, shuffled rows, all-gap columns) are scored by kalign_msa_compare and by an independent implementation of the definition; plus score==100 for equal-up-to-order/all-gap-columns, bounds, and row-order invariance.",
        note="Files contain at least one gap (gap-free files are by design not recognised as alignments).",
        design="4 C17"),
}


def main():
    props = [json.loads(l) for l in open(os.path.join(HERE, "properties.jsonl"))]
    checks = []
    na = []
    for p in props:
        pid = p["id"]
        have = any(f.lower().startswith(pid.lower()) for f in os.listdir(os.path.join(HERE, "props")))
        c = CHECKS.get(pid)
        if have and c:
            checks.append({
                "property_id": pid,
                "quick_cmd": "./check %s --tier quick" % pid,
                "thorough_cmd": "./check %s --tier thorough" % pid,
                "evidence_file": "evidence/%s.json" % pid,
                "replay_cmd_template": "./check %s --replay {path}" % pid,
                "engine": c.get("engine", "hypothesis"),
                "level_claimed": {"category": "exploration", "text": c["text"], "design_ref": "DESIGN.md section " + c["design"]},
                "level_note": c["note"],
                "technique": c["technique"],
            })
        else:
            na.append({"property_id": pid, "reason": "check not built yet in this revision (planned: see DESIGN.md section 4)"})
    try:
        commits = subprocess.run(["git", "-C", "/repo", "log", "--format=%h %s"], capture_output=True, text=True).stdout.splitlines()
        hook_commits = [c.split()[0] for c in commits if "verification hook" in c or "KALIGN_VERIF" in c]
    except OSError:
        hook_commits = []
    m = {
        "version": 1,
        "setup_cmd": "./setup.sh",
        "hooks": {
            "guard": "KALIGN_VERIF",
            "enable": "-DCMAKE_C_FLAGS=-DKALIGN_VERIF (vlib/build.py passes it to every variant it builds from /repo)",
            "baseline_off_cmd": "cmake -S /repo -B /repo/_build_off -DCMAKE_BUILD_TYPE=Release && cmake --build /repo/_build_off -j16 && ctest --test-dir /repo/_build_off -j8 --timeout 900 </dev/null",
            "source_commits": hook_commits,
            "add_only": True,
        },
        "engines": [
            {"name": "hypothesis", "path": "vlib/engine.py", "serves_properties": [c["property_id"] for c in checks if "hypothesis" in c["engine"]],
             "kind_free_text": "Hypothesis 6.168 (python3-vt), seeded workers, cases executed in fresh sanitised kalign processes (probe / CLI built from /repo's working tree)"},
            {"name": "rapidcheck", "path": "native/c11_bpm.cpp", "serves_properties": ["C11"], "kind_free_text": "rapidcheck + exhaustive enumerator linked with bpm.c"},
            {"name": "libfuzzer", "path": "native/fuzz_pipeline.cc", "serves_properties": ["C05"], "kind_free_text": "libFuzzer + ASan/UBSan/LSan, structure-aware"},
        ],
        "checks": checks,
        "not_applicable": na,
        "notes": "All checks rebuild kalign from /repo's current working tree (hash-keyed cache under /verif/build). VERIF_SEED and VERIF_TIER are honoured. Known findings: known_findings.jsonl.",
    }
    if not na:
        m.pop("not_applicable")
    with open(os.path.join(HERE, "MANIFEST.json"), "w") as fh:
        json.dump(m, fh, indent=1)
    print("claimed:", [c["property_id"] for c in checks], "n/a:", [x["property_id"] for x in na])


if __name__ == "__main__":
    main()
