#!/usr/local/bin/python3-vt
"""Brute-force self test of the C07 oracle: every alignment of pairs up to length 5 is scored by an explicit
path-scoring function and compared with the DP optimum and the two certificate margins."""
import random
import sys

sys.path.insert(0, __import__("os").path.dirname(__import__("os").path.dirname(__import__("os").path.abspath(__file__))))
from vlib import dporacle as d  # noqa


def main(n=300, seed=5):
    rnd = random.Random(seed)
    bad = 0
    for _ in range(n):
        kind = rnd.choice(["dna", "protein"])
        alpha = "ACGT" if kind == "dna" else "ARNDCQEGHILKMFPSTWYV"
        a = "".join(rnd.choice(alpha) for _ in range(rnd.randint(1, 5)))
        b = "".join(rnd.choice(alpha) for _ in range(rnd.randint(1, 5)))
        setn = rnd.choice(["dna", "internal", "rna"]) if kind == "dna" else rnd.choice(["protein", "divergent"])
        gpo, gpe, tgpe = rnd.choice([0, 0.5, 2, 5.5, 8, 55]), rnd.choice([0, 0.5, 1, 2, 6]), rnd.choice([0, 0.5, 1, 4, 8])
        alns = list(d.all_alignments(a, b))
        for tc in (gpo, 0.0):
            sc = [s for s in (d.score_alignment(x, y, kind, setn, gpo, gpe, tgpe, tc) for x, y in alns) if s is not None]
            if abs(max(sc) - d.best(a, b, kind, setn, gpo, gpe, tgpe, tc)) > 1e-9:
                bad += 1
        c = d.certify(a, b, kind, setn, gpo, gpe, tgpe)
        ra, rb = d.rows_from_cols(a, b, c["cols"])
        s = d.score_alignment(ra, rb, kind, setn, gpo, gpe, tgpe, gpo)
        if s is None or abs(s - c["opt"]) > 1e-9:
            bad += 1
    print("oracle self test: %d pairs, %d disagreements" % (n, bad))
    return 1 if bad else 0


if __name__ == "__main__":
    sys.exit(main())
