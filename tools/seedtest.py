#!/usr/bin/env python3
"""Run checks against a seeded change without touching /repo:
     tools/seedtest.py seeded/<id> [CHECK ...] [--tier quick] [--seed N]
   A scratch worktree of /repo's HEAD gets the patch; the checks run with VERIF_REPO pointing at it and with evidence /
   new replay files redirected to a scratch directory.  Result is appended to seeded/<id>/runs.jsonl."""
import json
import os
import shutil
import subprocess
import sys
import time

HERE = os.path.dirname(os.path.dirname(os.path.abspath(__file__)))


def main():
    args = [a for a in sys.argv[1:] if not a.startswith("--")]
    tier = "quick"
    seed = "1"
    for i, a in enumerate(sys.argv):
        if a == "--tier":
            tier = sys.argv[i + 1]
        if a == "--seed":
            seed = sys.argv[i + 1]
    args = [a for a in args if a not in (tier, seed)] if "--tier" in sys.argv or "--seed" in sys.argv else args
    d = os.path.abspath(args[0])
    meta = json.load(open(os.path.join(d, "meta.json")))
    checks = args[1:] or [meta["property"]]
    wt = "/tmp/seedtest/%s" % os.path.basename(d)
    subprocess.run(["git", "-C", "/repo", "worktree", "remove", "--force", wt], capture_output=True)
    shutil.rmtree(wt, ignore_errors=True)
    os.makedirs("/tmp/seedtest", exist_ok=True)
    subprocess.run(["git", "-C", "/repo", "worktree", "add", "-q", "--detach", wt, "HEAD"], check=True)
    try:
        if meta.get("pin_base"):
            # the change stopped being a violation on the current tree (see meta["note"]): test it where it was written
            subprocess.run(["git", "-C", wt, "checkout", "-q", "--detach", meta["base_commit"]], check=True)
        r = subprocess.run(["git", "-C", wt, "apply", os.path.join(d, "patch.diff")])
        if r.returncode != 0:
            # a later fix: commit moved the surrounding lines: let git merge the patch (3-way)
            r = subprocess.run(["git", "-C", wt, "apply", "-3", os.path.join(d, "patch.diff")], capture_output=True)
            if r.returncode != 0 or subprocess.run(["git", "-C", wt, "diff", "--check", "HEAD"], capture_output=True).returncode != 0:
                subprocess.run(["git", "-C", wt, "reset", "-q", "--hard", "HEAD"], check=True)
                r = subprocess.CompletedProcess([], 1)
            else:
                r = subprocess.CompletedProcess([], 0)
        if r.returncode != 0:
            # /repo has moved on since the seed was written (a later fix: commit touches the same lines): test it on the
            # commit it was written against
            subprocess.run(["git", "-C", wt, "checkout", "-q", "--detach", meta["base_commit"]], check=True)
            subprocess.run(["git", "-C", wt, "apply", os.path.join(d, "patch.diff")], check=True)
        scratch = "/tmp/seedtest/out.%s" % os.path.basename(d)
        shutil.rmtree(scratch, ignore_errors=True)
        os.makedirs(scratch)
        env = dict(os.environ, VERIF_REPO=wt, VERIF_EVID_DIR=scratch, VERIF_NEW_REPLAY_DIR=scratch, VERIF_SEED=seed, VERIF_TIER=tier)
        for c in checks:
            t0 = time.time()
            p = subprocess.run([os.path.join(HERE, "check"), c, "--tier", tier], env=env, cwd=HERE, capture_output=True, text=True)
            viol = [l for l in p.stdout.splitlines() if l.startswith("VIOLATION")]
            det = [l for l in p.stdout.splitlines() if l.startswith("detail:")]
            rec = {"check": c, "tier": tier, "seed": int(seed), "exit": p.returncode, "caught": p.returncode == 1 and bool(viol),
                   "violations": len(viol), "first_detail": det[0][:400] if det else None, "wall_s": round(time.time() - t0, 1)}
            print(json.dumps(rec))
            if p.returncode not in (0, 1):
                print(p.stdout[-1500:], p.stderr[-1500:])
            with open(os.path.join(d, "runs.jsonl"), "a") as fh:
                fh.write(json.dumps(rec) + "\n")
        shutil.rmtree(scratch, ignore_errors=True)
    finally:
        subprocess.run(["git", "-C", "/repo", "worktree", "remove", "--force", wt], capture_output=True)
        shutil.rmtree(wt, ignore_errors=True)


if __name__ == "__main__":
    main()
